#!/usr/bin/env python3
"""Prints a markdown table of what the evidence files in /verif/evidence say (used for DESIGN.md §12.6)."""
import json, glob, os
root = os.path.dirname(os.path.abspath(__file__))
print("| check | tier | seed | plans | evaluations | distinct non-trivial | seam calls | fault kinds fired (total) | known-finding hits | violations | wall s | runs/hour |")
print("|---|---|---|---|---|---|---|---|---|---|---|---|")
for f in sorted(glob.glob(os.path.join(root, "evidence", "C*.json"))):
    e = json.load(open(f)); c = e["coverage"]
    plans = sum(v.get("plans", 0) for v in c.get("families", {}).values())
    faults = c.get("faults_fired", {})
    print(f"| {e['property_id']} | {e['tier']} | {e['seed']} | {plans} | {c['evaluations']} | {c['distinct_nontrivial']} | {c.get('seam_calls_simulated', 0)} | {len(faults)} ({sum(faults.values())}) | {sum(c.get('known_findings_hit', {}).values()) if isinstance(c.get('known_findings_hit'), dict) else len(c.get('known_findings_hit', []))} | {e['violations']} | {e['wall_s']} | {c.get('simulated_runs_per_hour', 0)} |")
