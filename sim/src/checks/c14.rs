//! C14 — text canonicalization is one function, however the text is delivered.

use std::io::Write;
use std::sync::{Arc, Mutex};

use pgp::{
    composed::DetachedSignature,
    crypto::{hash::HashAlgorithm, public_key::PublicKeyAlgorithm},
    line_writer::LineBreak,
    normalize_lines::NormalizedReader,
    packet::{LiteralData, SignatureConfig, SignatureType},
    types::{Fingerprint, KeyDetails, KeyId, KeyVersion, Password, PublicParams, SignatureBytes, SigningKey, Timestamp},
};
use serde_json::{json, Value};

use crate::{
    keys,
    model::canon,
    rng::SimRng,
    runner::{guard, norm_loc, Check, Family, GenCtx, Rec, Tier},
    seams::{self, Consumer, Sched, SimReader},
    util::{jstr, ju64, jusize, Fnv, Planner},
    workload,
};

pub fn check() -> Check {
    Check {
        property: "C14",
        level: "exploration",
        rule: "all strings over the abstraction alphabet {CR, LF, x} up to length 8 (quick) / 10 (thorough), each under ALL chunkings (<= length 8; 64 sampled above), each also with zero-length writes before / between / after the pieces, through the streaming hasher (SignatureConfig::into_hasher + io::Write, digest exposed by a recording SigningKey), through NormalizedReader under all read compositions, and through the in-memory normalization (LiteralData::from_str); plus long random strings with CR/LF/CRLF placed at the 512 B / 8 KiB internal buffer edges and at the very end, and DataMode::Utf8 accept/reject under read schedules. Oracles: chunking independence, equality with the reference canon(), digest kernel = canon kernel over the single-edit neighbourhood, real text signatures verify exactly on the LF<->CRLF class. Non-trivial: the string contains CR or LF; distinct = distinct (string, chunking) pairs evaluated, hashed.",
        families: vec![
            Family { name: "enum", gen: gen_enum, run: run_enum },
            Family { name: "long", gen: gen_long, run: run_long },
            Family { name: "utf8_mode", gen: gen_utf8, run: run_utf8 },
        ],
        assumptions: vec!["the code branches only on the three classes CR / LF / other (read in the anchored files), so the 3-symbol abstraction is exhaustive for control flow up to the enumerated length"],
        real: vec!["util::NormalizingHasher via SignatureConfig::into_hasher / SignatureHasher::sign", "normalize_lines::NormalizedReader", "normalize_lines::normalize_lines via LiteralData::from_str", "DetachedSignature::sign_text_data + Signature::verify", "LiteralDataGenerator Utf8/CrLf checking readers via MessageBuilder"],
        stubs: vec!["recording SigningKey (returns the digest)", "SimReader schedules", "reference canon()"],
    }
}

// ------------------------------------------------------------------ recording signer

#[derive(Debug)]
pub struct RecordingSigner {
    pub inner: &'static keys::PoolKey,
    pub last: Mutex<Vec<u8>>,
}

impl KeyDetails for RecordingSigner {
    fn version(&self) -> KeyVersion {
        self.inner.secret.version()
    }
    fn legacy_key_id(&self) -> KeyId {
        self.inner.secret.legacy_key_id()
    }
    fn fingerprint(&self) -> Fingerprint {
        self.inner.secret.fingerprint()
    }
    fn algorithm(&self) -> PublicKeyAlgorithm {
        self.inner.secret.algorithm()
    }
    fn created_at(&self) -> Timestamp {
        self.inner.secret.created_at()
    }
    fn legacy_v3_expiration_days(&self) -> Option<u16> {
        None
    }
    fn public_params(&self) -> &PublicParams {
        self.inner.secret.public_params()
    }
}

impl SigningKey for RecordingSigner {
    fn sign(&self, _pw: &Password, _hash: HashAlgorithm, data: &[u8]) -> pgp::errors::Result<SignatureBytes> {
        *self.last.lock().unwrap() = data.to_vec();
        Ok(SignatureBytes::Native(data.to_vec().into()))
    }
    fn hash_alg(&self) -> HashAlgorithm {
        HashAlgorithm::Sha256
    }
}

/// digest of `s` in text mode, written to the streaming hasher in the given pieces
pub fn text_digest(rs: &RecordingSigner, s: &[u8], cuts: &[usize], typ: SignatureType) -> Result<Vec<u8>, String> {
    let cfg = SignatureConfig::v4(typ, rs.algorithm(), HashAlgorithm::Sha256);
    let mut h = cfg.into_hasher().map_err(|e| e.to_string())?;
    let mut pos = 0;
    // (a repeated cut position, or a cut at 0 / at the end, is an empty piece: a zero-length write)
    let piece = |h: &mut dyn Write, p: &[u8]| -> Result<(), String> {
        if p.is_empty() {
            h.write(p).map(|_| ()).map_err(|e| e.to_string())
        } else {
            h.write_all(p).map_err(|e| e.to_string())
        }
    };
    for &c in cuts {
        piece(&mut h, &s[pos..c])?;
        pos = c;
    }
    piece(&mut h, &s[pos..])?;
    h.sign(rs, &Password::empty()).map_err(|e| e.to_string())?;
    Ok(rs.last.lock().unwrap().clone())
}

fn sym(i: usize) -> u8 {
    [b'\r', b'\n', b'x'][i % 3]
}

fn nth_string(n: usize, mut idx: usize) -> Vec<u8> {
    let mut s = Vec::with_capacity(n);
    for _ in 0..n {
        s.push(sym(idx % 3));
        idx /= 3;
    }
    s
}

/// cut positions for composition number `mask` of a string of length n (bit i set = cut after byte i)
fn cuts_of(n: usize, mask: usize) -> Vec<usize> {
    (1..n).filter(|i| mask >> (i - 1) & 1 == 1).collect()
}

fn gen_enum(ctx: &GenCtx) -> Vec<Value> {
    let max_len = if ctx.tier == Tier::Thorough { 11 } else { 9 };
    let mut plans = Vec::new();
    for n in 0..=max_len {
        let total = 3usize.pow(n as u32);
        let per = 81.min(total);
        let mut start = 0;
        while start < total {
            plans.push(json!({"n": n, "from": start, "to": (start + per).min(total), "key": "ed25519-v4"}));
            start += per;
        }
    }
    plans
}

fn run_enum(plan: &Value, rec: &mut Rec) {
    let n = jusize(plan, "n");
    let rs = RecordingSigner { inner: keys::get("ed25519-v4"), last: Mutex::new(vec![]) };
    let key = keys::get(jstr(plan, "key"));
    let only = plan.get("only").and_then(|o| o.as_u64()).map(|x| x as usize);
    let range = match only {
        Some(i) => i..i + 1,
        None => jusize(plan, "from")..jusize(plan, "to"),
    };
    for idx in range {
        let s = nth_string(n, idx);
        let c = canon(&s);
        let nontrivial = s.iter().any(|b| *b != b'x');
        let mut vplan = plan.clone();
        vplan["only"] = json!(idx);
        let show = String::from_utf8_lossy(&s).replace('\r', "\\r").replace('\n', "\\n");

        // (a) streaming hasher: all chunkings give one digest
        let r = guard(|| -> Result<(), String> {
            let base = text_digest(&rs, &s, &[], SignatureType::Text)?;
            let masks: Vec<usize> = if n <= 8 { (0..(1usize << n.saturating_sub(1))).collect() } else { (0..64).map(|i| (i * 2654435761usize) & ((1 << (n - 1)) - 1)).collect() };
            for m in masks {
                let cuts = cuts_of(n, m);
                let d = text_digest(&rs, &s, &cuts, SignatureType::Text)?;
                let mut h = Fnv::default();
                h.bytes(&s);
                h.u64(m as u64);
                rec.eval(h.0, nontrivial && m != 0);
                if d != base {
                    return Err(format!("chunking {:?} of \"{show}\" changes the text-mode digest", cuts));
                }
                // the same chunking with a zero-length write before, between and after the pieces
                let mut with_empty = vec![0usize];
                for c in &cuts {
                    with_empty.push(*c);
                    with_empty.push(*c);
                }
                with_empty.push(n);
                let d = text_digest(&rs, &s, &with_empty, SignatureType::Text)?;
                rec.eval(h.0 ^ 0x5a5a, nontrivial);
                if d != base {
                    return Err(format!("chunking {:?} of \"{show}\" with zero-length writes in between changes the text-mode digest", cuts));
                }
            }
            // (d) digest kernel == canon kernel on the single-edit neighbourhood
            let mut neigh: Vec<Vec<u8>> = Vec::new();
            for i in 0..=s.len() {
                for a in 0..3 {
                    let mut t = s.clone();
                    t.insert(i, sym(a));
                    neigh.push(t);
                }
            }
            for i in 0..s.len() {
                let mut t = s.clone();
                t.remove(i);
                neigh.push(t);
                for a in 0..3 {
                    if sym(a) != s[i] {
                        let mut t = s.clone();
                        t[i] = sym(a);
                        neigh.push(t);
                    }
                }
            }
            for t in neigh {
                let dt = text_digest(&rs, &t, &[], SignatureType::Text)?;
                let same_canon = canon(&t) == c;
                rec.eval(0, false);
                if (dt == base) != same_canon {
                    let showt = String::from_utf8_lossy(&t).replace('\r', "\\r").replace('\n', "\\n");
                    return Err(if same_canon {
                        format!("\"{show}\" and \"{showt}\" have the same canonical form but different text-mode digests")
                    } else {
                        format!("\"{show}\" and \"{showt}\" have different canonical forms but the same text-mode digest (hasher is not canon())")
                    });
                }
            }
            Ok(())
        });
        match r {
            Err(p) => rec.violation("panic", &norm_loc(&p.loc), format!("hasher panicked on \"{show}\": {}", p.msg), vplan.clone()),
            Ok(Err(e)) => rec.violation("hasher-not-canon", "NormalizingHasher", e, vplan.clone()),
            Ok(Ok(())) => {}
        }

        // (b) NormalizedReader under all compositions (as read schedule) == canon
        let masks: Vec<usize> = if n <= 7 { (0..(1usize << n.saturating_sub(1))).collect() } else { (0..32).map(|i| (i * 2654435761usize) & ((1 << (n - 1)) - 1)).collect() };
        for m in masks {
            let cuts = cuts_of(n, m);
            let mut sizes = Vec::new();
            let mut pos = 0;
            for &cpos in &cuts {
                sizes.push(cpos - pos);
                pos = cpos;
            }
            sizes.push((n - pos).max(1));
            let (src, _log) = SimReader::new(Arc::new(s.clone()), Sched::List(sizes), vec![]);
            let r = guard(|| {
                let mut nr = NormalizedReader::new(src, LineBreak::Crlf);
                let (d, e) = seams::drain_read(&mut nr, &Consumer::ReadLoop(vec![3, 1, 2]), 64);
                e.map(|_| d).map_err(|e| e.to_string())
            });
            rec.eval(0, false);
            match r {
                Err(p) => rec.violation("panic", &norm_loc(&p.loc), format!("NormalizedReader panicked on \"{show}\": {}", p.msg), vplan.clone()),
                Ok(Err(e)) => rec.violation("reader-failed", "NormalizedReader", format!("\"{show}\": {e}"), vplan.clone()),
                Ok(Ok(d)) => {
                    if d != c {
                        rec.violation("reader-not-canon", "NormalizedReader", format!("\"{show}\" read in pieces {cuts:?} gives {:?}, canon is {:?}", String::from_utf8_lossy(&d), String::from_utf8_lossy(&c)), vplan.clone());
                        break;
                    }
                }
            }
        }

        // (c) in-memory normalization
        let st = String::from_utf8(s.clone()).unwrap();
        match guard(|| LiteralData::from_str("", &st).map(|l| l.data().to_vec()).map_err(|e| e.to_string())) {
            Err(p) => rec.violation("panic", &norm_loc(&p.loc), format!("normalize_lines panicked on \"{show}\": {}", p.msg), vplan.clone()),
            Ok(Err(_)) => {}
            Ok(Ok(d)) => {
                rec.eval(0, false);
                if d != c {
                    rec.violation("memory-not-canon", "normalize_lines", format!("LiteralData::from_str(\"{show}\") holds {:?}, canon is {:?}", String::from_utf8_lossy(&d), String::from_utf8_lossy(&c)), vplan.clone());
                }
            }
        }

        // (e) consequence, with a real key: sign(s) verifies on the LF<->CRLF class of s
        if idx % 7 == 0 || only.is_some() {
            let r = guard(|| -> Result<(), String> {
                let mut rng = SimRng::new(1, "c14", false);
                let sig = DetachedSignature::sign_text_data(&mut rng, &*key.secret, &Password::from(key.password), HashAlgorithm::Sha256, &s[..]).map_err(|e| e.to_string())?;
                let lf: Vec<u8> = String::from_utf8_lossy(&c).replace("\r\n", "\n").into_bytes();
                for (name, t) in [("itself", s.clone()), ("its CRLF form", c.clone()), ("its LF form", lf)] {
                    if canon(&t) != c {
                        continue;
                    }
                    if let Err(e) = sig.verify(&key.public, &t) {
                        return Err(format!("text signature over \"{show}\" does not verify over {name}: {e}"));
                    }
                    // the same signature in front of a literal packet with that text (old-style signed message,
                    // no one-pass packet): the message reader hashes the literal's bytes in text mode too
                    let mut lit = vec![b'b', 0, 0, 0, 0, 0];
                    lit.extend_from_slice(&t);
                    let sig_body = pgp::ser::Serialize::to_bytes(&sig.signature).map_err(|e| e.to_string())?;
                    let mut msg = crate::model::framer::frame(2, &sig_body, &crate::model::framer::LenForm::NewMinimal).ok_or("frame")?;
                    msg.extend_from_slice(&crate::model::framer::frame(11, &lit, &crate::model::framer::LenForm::NewMinimal).ok_or("frame")?);
                    let mut m = pgp::composed::Message::from_bytes(&msg[..]).map_err(|e| format!("prefixed message: {e}"))?;
                    let mut out = Vec::new();
                    std::io::Read::read_to_end(&mut m, &mut out).map_err(|e| format!("prefixed message: {e}"))?;
                    if let Err(e) = m.verify(&key.public) {
                        return Err(format!("text signature over \"{show}\" in front of a literal packet holding {name} does not verify: {e}"));
                    }
                }
                let mut t = s.clone();
                t.push(b'\n');
                if canon(&t) != c && sig.verify(&key.public, &t).is_ok() {
                    return Err(format!("text signature over \"{show}\" also verifies with an extra LF appended"));
                }
                Ok(())
            });
            rec.eval(0, false);
            rec.count("probe:real-signature-checked");
            match r {
                Err(p) => rec.violation("panic", &norm_loc(&p.loc), format!("sign/verify panicked on \"{show}\": {}", p.msg), vplan.clone()),
                Ok(Err(e)) => rec.violation("text-signature-class", "DetachedSignature", e, vplan.clone()),
                Ok(Ok(())) => {}
            }
        }
        if s.last() == Some(&b'\r') {
            rec.count("probe:ends-in-lone-CR");
        }
        if rec.samples.is_empty() {
            rec.sample(json!({"string": show, "canon": String::from_utf8_lossy(&c), "chunkings": 1usize << n.saturating_sub(1)}));
        }
    }
}

// ------------------------------------------------------------------ long strings at buffer edges

fn gen_long(ctx: &GenCtx) -> Vec<Value> {
    let n = ctx.n(80_000, 1_500_000);
    (0..n)
        .map(|i| {
            let mut p = Planner::new(ctx.seed, "c14.long", i as u64);
            let edge = *p.pick(&[511usize, 512, 513, 1023, 1024, 1025, 8191, 8192, 8193, 16384]);
            let len = edge + p.range(0, 700);
            // place line-ending material around the edge and at the end
            let mut marks = Vec::new();
            for _ in 0..p.range(1, 4) {
                let at = (edge as isize + p.range(0, 6) as isize - 3).max(0) as usize;
                marks.push(json!([at, *p.pick(&["\r", "\n", "\r\n", "\r\r", "\n\r", "\r\n\n"])]));
            }
            if p.chance(1, 2) {
                marks.push(json!([len.saturating_sub(p.range(1, 2)), *p.pick(&["\r", "\n", "\r\n"])]));
            }
            json!({"len": len, "marks": marks, "fill": *p.pick(&["x", "mix"]), "key": p.u64(), "src_sched": p.sched().to_json(),
                   "write_sizes": (0..p.range(1, 12)).map(|_| *p.pick(&[1usize, 2, 7, 255, 256, 511, 512, 513, 4096, 8191, 8192, 8193])).collect::<Vec<_>>(),
                   "consumer": p.consumer(false).to_json()})
        })
        .collect()
}

fn long_string(plan: &Value) -> Vec<u8> {
    let len = jusize(plan, "len");
    let mut s = if jstr(plan, "fill") == "mix" {
        crate::util::payload_from_json(&json!({"gen":"crlfmix","len":len,"key": ju64(plan,"key")}))
    } else {
        vec![b'x'; len]
    };
    if let Some(a) = plan["marks"].as_array() {
        for m in a {
            let at = m[0].as_u64().unwrap_or(0) as usize;
            let b = m[1].as_str().unwrap_or("").as_bytes();
            for (i, c) in b.iter().enumerate() {
                if at + i < s.len() {
                    s[at + i] = *c;
                }
            }
        }
    }
    s
}

fn run_long(plan: &Value, rec: &mut Rec) {
    let s = long_string(plan);
    let c = canon(&s);
    let rs = RecordingSigner { inner: keys::get("ed25519-v4"), last: Mutex::new(vec![]) };
    let sizes: Vec<usize> = plan["write_sizes"].as_array().map(|a| a.iter().map(|x| x.as_u64().unwrap_or(1).max(1) as usize).collect()).unwrap_or_else(|| vec![4096]);
    let mut cuts = Vec::new();
    let mut pos = 0;
    let mut i = 0;
    while pos + sizes[i % sizes.len()] < s.len() {
        pos += sizes[i % sizes.len()];
        cuts.push(pos);
        i += 1;
    }
    let mut h = Fnv::default();
    h.bytes(&s);
    h.str(&plan["write_sizes"].to_string());
    rec.eval(h.0, true);
    if s.last() == Some(&b'\r') {
        rec.count("probe:ends-in-lone-CR");
    }
    for e in [511usize, 8191] {
        if s.len() > e + 1 && s[e] == b'\r' {
            rec.count(&format!("probe:CR-is-last-byte-of-{}-block", e + 1));
        }
    }
    rec.sample(json!({"len": s.len(), "marks": plan["marks"], "write_sizes": plan["write_sizes"], "src_sched": plan["src_sched"]}));
    let r = guard(|| -> Result<(), String> {
        let whole = text_digest(&rs, &s, &[], SignatureType::Text)?;
        let pieces = text_digest(&rs, &s, &cuts, SignatureType::Text)?;
        if whole != pieces {
            return Err(format!("hasher: digest depends on the write sizes {:?} (len {})", sizes, s.len()));
        }
        // the canonical form hashed in one piece must give the same digest (canon is a fixpoint class)
        let of_canon = text_digest(&rs, &c, &[], SignatureType::Text)?;
        if whole != of_canon {
            return Err("hasher: digest(s) != digest(canon(s))".into());
        }
        Ok(())
    });
    match r {
        Err(p) => rec.violation("panic", &norm_loc(&p.loc), format!("hasher panicked: {}", p.msg), plan.clone()),
        Ok(Err(e)) => rec.violation("hasher-not-canon", "NormalizingHasher", e, plan.clone()),
        Ok(Ok(())) => {}
    }
    let consumer = Consumer::from_json(&plan["consumer"]);
    let sched = Sched::from_json(&plan["src_sched"]);
    rec.count(&format!("sched:src:{}", sched.label()));
    let (src, log) = SimReader::new(Arc::new(s.clone()), sched, vec![]);
    let r = guard(|| {
        let mut nr = NormalizedReader::new(src, LineBreak::Crlf);
        let (d, e) = seams::drain_read(&mut nr, &consumer, 2 * s.len() + 64);
        e.map(|_| d).map_err(|e| e.to_string())
    });
    rec.seam_calls += seams::snap(&log).calls;
    rec.eval(h.0 ^ 1, true);
    match r {
        Err(p) => rec.violation("panic", &norm_loc(&p.loc), format!("NormalizedReader panicked: {}", p.msg), plan.clone()),
        Ok(Err(e)) => rec.violation("reader-failed", "NormalizedReader", e, plan.clone()),
        Ok(Ok(d)) => {
            if d != c {
                let at = d.iter().zip(c.iter()).position(|(a, b)| a != b).unwrap_or(d.len().min(c.len()));
                rec.violation("reader-not-canon", "NormalizedReader", format!("output ({} bytes) differs from canon ({} bytes) at offset {at}", d.len(), c.len()), plan.clone());
            }
        }
    }
}

// ------------------------------------------------------------------ DataMode::Utf8 acceptance

fn gen_utf8(ctx: &GenCtx) -> Vec<Value> {
    let n = ctx.n(80_000, 1_500_000);
    (0..n)
        .map(|i| {
            let mut p = Planner::new(ctx.seed, "c14.utf8", i as u64);
            let atoms = ["a", "\r\n", "\r", "\n", "é", "€", "😀", "\u{7f}"];
            let mut s: Vec<u8> = Vec::new();
            let target = if p.chance(2, 3) { p.range(0, 12) } else { *p.pick(&[510usize, 512, 1022, 8190]) + p.range(0, 4) };
            while s.len() < target {
                if target > 100 && s.len() + 8 < target {
                    s.push(b'z');
                    continue;
                }
                s.extend_from_slice(p.pick(&atoms).as_bytes());
            }
            match p.below(8) {
                0 => s.push(0xFF),
                1 => {
                    if !s.is_empty() {
                        let k = p.below(s.len());
                        s[k] = 0xC3;
                    }
                }
                2 => s.truncate(s.len().saturating_sub(1)),
                _ => {}
            }
            json!({"hex": hex::encode(&s), "src_sched": p.sched().to_json(), "partial": 512u32 << p.below(3)})
        })
        .collect()
}

fn run_utf8(plan: &Value, rec: &mut Rec) {
    let s = hex::decode(jstr(plan, "hex")).unwrap_or_default();
    let want_ok = crate::model::utf8_crlf_ok(&s);
    let cfg = json!({"data_mode":"utf8","partial": plan["partial"], "source":"reader","rng_key": 1});
    let run = |sched: Sched| {
        let (src, _l) = SimReader::new(Arc::new(s.clone()), sched, vec![]);
        guard(|| {
            let mut rng = SimRng::new(1, "utf8", false);
            let mut out = Vec::new();
            let (r, _) = workload::build(&cfg, workload::Source::Reader(src), &mut rng, &mut out);
            r.map(|_| out).map_err(|e| e.to_string())
        })
    };
    let sched = Sched::from_json(&plan["src_sched"]);
    let mut h = Fnv::default();
    h.bytes(&s);
    h.str(&plan["src_sched"].to_string());
    rec.eval(h.0, s.iter().any(|b| *b == b'\r' || *b == b'\n' || *b >= 0x80));
    rec.count(if want_ok { "probe:utf8-input-valid" } else { "probe:utf8-input-invalid" });
    rec.sample(json!({"input_hex": jstr(plan, "hex"), "predicate": want_ok, "src_sched": plan["src_sched"]}));
    for (name, sc) in [("S-full", Sched::Full), ("S-1", Sched::Fixed(1)), ("planned", sched)] {
        match run(sc) {
            Err(p) => rec.violation("panic", &norm_loc(&p.loc), format!("Utf8 builder panicked: {}", p.msg), plan.clone()),
            Ok(r) => {
                if r.is_ok() != want_ok {
                    rec.violation(
                        "utf8-acceptance",
                        "MessageBuilder:DataMode::Utf8",
                        format!("input is {} by the predicate (valid UTF-8 and every LF preceded by CR) but the builder {} it under schedule {name}", if want_ok { "valid" } else { "invalid" }, if r.is_ok() { "accepted" } else { "rejected" }),
                        plan.clone(),
                    );
                    return;
                }
            }
        }
    }
}
