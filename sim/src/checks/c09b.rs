//! C09, second part: the low-level stream types, the dearmorer, the signature hashers and
//! armor writing — every "source -> bytes" operation judged by one generic oracle.

use std::io::Read;
use std::sync::Arc;

use pgp::{
    composed::{ArmorOptions, DetachedSignature},
    crypto::sym::SymmetricKeyAlgorithm,
    line_writer::LineBreak,
    normalize_lines::NormalizedReader,
    packet::{StreamDecryptor, SymEncryptedProtectedData},
    ser::Serialize,
    types::{Password, Seipdv1ReadMode},
};
use serde_json::{json, Value};

use crate::{
    keys,
    rng::SimRng,
    runner::{guard, norm_loc, Family, GenCtx, PanicInfo, Rec},
    seams::{self, Consumer, Fault, Sched, SeamLog, SimReader, SimWriter, LIVELOCK_MARK},
    util::{jbool, jstr, ju64, payload_from_json, Fnv, Planner},
    workload,
};

pub fn families() -> Vec<Family> {
    vec![
        Family { name: "lowlevel", gen: gen_lowlevel, run: run_op },
        Family { name: "dearmor", gen: gen_dearmor, run: run_op },
        Family { name: "hashers", gen: gen_hashers, run: run_op },
        Family { name: "armor_write", gen: gen_armor_write, run: run_armor_write },
    ]
}

pub struct OpRun {
    pub result: Result<Result<Vec<u8>, String>, PanicInfo>,
    pub log: SeamLog,
}

const HARD_KINDS: [&str; 6] = ["other", "broken_pipe", "unexpected_eof", "would_block", "timed_out", "storage_full"];

/// Generic oracle for an operation that pulls from one source seam and yields bytes.
#[allow(clippy::too_many_arguments)]
pub fn judge_source_op(
    plan: &Value,
    rec: &mut Rec,
    shape: u64,
    site: &str,
    sched: &Sched,
    nontrivial_base: bool,
    op: &dyn Fn(Sched, Vec<Fault>, bool) -> OpRun,
) {
    // the reference also uses the plainest consumer (the type's own read_to_end)
    let reference = op(Sched::Full, vec![], true);
    let Ok(Ok(ref_out)) = &reference.result else {
        let why = match &reference.result {
            Ok(Err(e)) => e.clone(),
            Err(p) => format!("panic {}", p.msg),
            _ => String::new(),
        };
        rec.count(&format!("skip:{site}:reference-failed:{}", &why[..why.len().min(50)]));
        return;
    };
    let only = plan.get("only");
    let base = op(sched.clone(), vec![], false);
    rec.seam_calls += base.log.calls;
    if only.is_none() {
        rec.count(&format!("sched:src:{}", sched.label()));
        let mut h = Fnv(shape);
        h.u64(base.log.hash.0);
        rec.eval(h.0, nontrivial_base);
        match &base.result {
            Err(p) => rec.violation("panic", &norm_loc(&p.loc), format!("{site}: panic under a fault-free schedule: {}", p.msg), plan.clone()),
            Ok(Err(e)) => rec.violation("result-differs", site, format!("fails under a fault-free schedule: {e}"), plan.clone()),
            Ok(Ok(o)) => {
                if o != ref_out {
                    let at = o.iter().zip(ref_out.iter()).position(|(a, b)| a != b).unwrap_or(o.len().min(ref_out.len()));
                    rec.violation("output-differs", site, format!("result depends on the schedule: {} vs {} bytes, first difference at {at}", o.len(), ref_out.len()), plan.clone());
                }
            }
        }
        if base.log.budget_exceeded {
            rec.violation("livelock", site, "step budget exceeded without a fault".into(), plan.clone());
        }
    }
    let kinds: Vec<String> = plan["kinds"].as_array().map(|a| a.iter().filter_map(|x| x.as_str().map(String::from)).collect()).unwrap_or_default();
    let mut cases: Vec<Fault> = Vec::new();
    if let Some(o) = only {
        cases.push(Fault::from_json(o));
    } else {
        let n = base.log.calls as usize;
        let pts: Vec<usize> = if n <= 100 {
            (0..n).collect()
        } else {
            let mut v: Vec<usize> = (0..25).chain(n - 25..n).collect();
            let step = (n - 50) / 50 + 1;
            v.extend((25..n - 25).step_by(step));
            v
        };
        for kind in &kinds {
            for &k in &pts {
                cases.push(Fault { at_call: Some(k), at_byte: None, op: "read".into(), kind: kind.clone(), persist: jbool(plan, "persist") && kind != "interrupted" });
            }
        }
    }
    for f in cases {
        let run = op(sched.clone(), vec![f.clone()], false);
        rec.seam_calls += run.log.calls;
        let fired = !run.log.fired.is_empty();
        let mut h = Fnv(shape);
        h.u64(run.log.hash.0);
        h.str(&f.label());
        h.u64(match &run.result {
            Err(_) => 3,
            Ok(Ok(_)) => 1,
            Ok(Err(_)) => 2,
        });
        rec.eval(h.0, fired);
        rec.count(&if fired { format!("fault:{}", f.label()) } else { "probe:fault-not-reached".to_string() });
        let mut vplan = plan.clone();
        vplan["only"] = f.to_json();
        match &run.result {
            Err(p) if p.msg.contains(LIVELOCK_MARK) => rec.violation("livelock", site, "kept calling a failing source".into(), vplan),
            Err(p) => rec.violation("panic", &norm_loc(&p.loc), format!("{site}: panic after injected {} on source call {:?}: {}", f.kind, f.at_call, p.msg), vplan),
            Ok(Ok(o)) => {
                if o != ref_out {
                    let class = if fired && f.kind != "interrupted" { "clean-shorter-after-error" } else { "ok-with-different-bytes" };
                    rec.violation(class, site, format!("{} on source call {:?}: Ok with {} bytes, reference has {}", f.kind, f.at_call, o.len(), ref_out.len()), vplan);
                } else if fired && f.kind != "interrupted" && f.kind != "unexpected_eof" {
                    rec.violation("ok-after-hard-error", site, format!("{} error on source call {:?} was swallowed (result complete)", f.kind, f.at_call), vplan);
                }
            }
            Ok(Err(e)) => {
                if !fired {
                    rec.violation("result-differs", site, format!("failed though the fault never fired: {e}"), vplan);
                } else if f.kind != "interrupted" {
                    // the same run with a consumer that reads on after the error (as one does for WouldBlock,
                    // TimedOut, ...): the reader may keep failing, or really resume and deliver everything -
                    // what it must not do is turn the error into a clean end with other content
                    seams::set_resume_after_error(true);
                    let again = op(sched.clone(), vec![f.clone()], false);
                    seams::set_resume_after_error(false);
                    rec.count("probe:consumer-reads-on-after-the-error");
                    if std::env::var("VERIF_DEBUG").is_ok() {
                        eprintln!("DEBUG first: {e}; read on: {:?}", again.result.as_ref().map(|r| r.as_ref().map(|o| o.len())).map_err(|p| p.msg.clone()));
                    }
                    match &again.result {
                        Err(p) if p.msg.contains(LIVELOCK_MARK) => {}
                        Err(p) => rec.violation("panic", &norm_loc(&p.loc), format!("{site}: panic when read again after injected {} on source call {:?}: {}", f.kind, f.at_call, p.msg), vplan),
                        Ok(Ok(o)) if o != ref_out => rec.violation(
                            "clean-shorter-after-error",
                            site,
                            format!("{} on source call {:?} surfaced as an error; the consumer read on and reached a clean end with {} bytes, reference has {}", f.kind, f.at_call, o.len(), ref_out.len()),
                            vplan,
                        ),
                        Ok(Ok(_)) => rec.count("probe:reader-resumed-after-the-error"),
                        Ok(Err(_)) => {}
                    }
                }
            }
        }
        if run.log.budget_exceeded && !matches!(&run.result, Err(p) if p.msg.contains(LIVELOCK_MARK)) {
            let mut vplan = plan.clone();
            vplan["only"] = f.to_json();
            rec.violation("livelock", site, "source step budget exceeded".into(), vplan);
        }
    }
}

// ------------------------------------------------------------------ lowlevel

fn gen_lowlevel(ctx: &GenCtx) -> Vec<Value> {
    let n = ctx.n(3000, 80_000);
    (0..n)
        .map(|i| {
            let mut p = Planner::new(ctx.seed, "c09.lowlevel", i as u64);
            let op = *p.pick(&["v1enc", "v1dec", "v2enc", "v2dec", "norm", "v1dec_stream"]);
            let chunk = p.range(0, 3);
            let csz = 64usize << chunk;
            let bases = [0usize, 1, 2, 18, 22, 40, 511, 512, 513, 1024, csz, csz + 16, 2 * csz, 8192, 8192 - 22];
            let len = if p.chance(2, 3) {
                let b = *p.pick(&bases);
                (b as isize + p.range(0, 4) as isize - 2).max(0) as usize
            } else {
                p.range(0, 3000)
            };
            let fault = p.chance(1, 3);
            let kinds: Vec<&str> = if fault { vec!["interrupted", *p.pick(&HARD_KINDS)] } else { vec![] };
            json!({"op": op, "sym": if op.starts_with("v2") { *p.pick(&["aes128","aes192","aes256"]) } else { *p.pick(&workload::SYMS) },
                   "aead": *p.pick(&workload::AEADS), "chunk": chunk,
                   "payload": {"gen": *p.pick(&["random","crlfmix","text"]), "len": len, "key": p.u64()},
                   "src_sched": p.sched().to_json(), "cap": *p.pick(&[1usize,2,7,64,512,8192]),
                   "consumer": p.consumer(false).to_json(), "rng_key": p.u64(), "kinds": kinds, "persist": p.chance(1,3)})
        })
        .collect()
}

fn gen_dearmor(ctx: &GenCtx) -> Vec<Value> {
    let n = ctx.n(3000, 80_000);
    (0..n)
        .map(|i| {
            let mut p = Planner::new(ctx.seed, "c09.dearmor", i as u64);
            let len = if p.chance(1, 2) { p.range(0, 200) } else { p.range(0, 4000) };
            let fault = p.chance(1, 3);
            let kinds: Vec<&str> = if fault { vec!["interrupted", *p.pick(&HARD_KINDS)] } else { vec![] };
            json!({"op": "dearmor", "payload": {"gen":"random","len": len, "key": p.u64()},
                   "checksum": p.chance(3,4), "crlf": p.chance(1,3),
                   "headers": if p.chance(1,2) { json!([["Comment","sim"],["Version","x 1"]]) } else { json!([]) },
                   "src_sched": p.sched().to_json(), "cap": *p.pick(&[1usize,2,3,5,64,512,8192]),
                   "consumer": p.consumer(false).to_json(), "kinds": kinds, "persist": p.chance(1,3)})
        })
        .collect()
}

fn gen_hashers(ctx: &GenCtx) -> Vec<Value> {
    let n = ctx.n(3000, 80_000);
    (0..n)
        .map(|i| {
            let mut p = Planner::new(ctx.seed, "c09.hashers", i as u64);
            let op = *p.pick(&["sign", "verify"]);
            let len = if p.chance(1, 2) { p.range(0, 40) } else { *p.pick(&[511usize, 512, 513, 8191, 8192, 8193, 3000]) };
            let fault = p.chance(1, 3);
            let kinds: Vec<&str> = if fault { vec!["interrupted", *p.pick(&HARD_KINDS)] } else { vec![] };
            json!({"op": op, "text": p.chance(2,3), "key": *p.pick(&["ed25519-v4","ed25519-v6","p256-v4"]), "hash": *p.pick(&["sha256","sha512"]),
                   "payload": {"gen": "crlfmix", "len": len, "key": p.u64()},
                   "src_sched": p.sched().to_json(), "rng_key": p.u64(), "kinds": kinds, "persist": p.chance(1,3)})
        })
        .collect()
}

fn sym_key(s: SymmetricKeyAlgorithm, k: u64) -> Vec<u8> {
    let mut p = Planner::new(k, "symkey", 0);
    p.bytes(s.key_size())
}

fn run_op(plan: &Value, rec: &mut Rec) {
    let payload = Arc::new(payload_from_json(&plan["payload"]));
    let sched = Sched::from_json(&plan["src_sched"]);
    let consumer = Consumer::from_json(&plan["consumer"]);
    let cap = plan["cap"].as_u64().unwrap_or(8192) as usize;
    let op = jstr(plan, "op").to_string();
    let sym = workload::sym(jstr(plan, "sym"));
    let aead = workload::aead(jstr(plan, "aead"));
    let chunk = workload::chunk_size(ju64(plan, "chunk"));
    let rng_key = ju64(plan, "rng_key");
    let key = sym_key(sym, rng_key);
    let mut salt = [0u8; 32];
    salt.copy_from_slice(&Planner::new(rng_key, "salt", 0).bytes(32));
    let max = payload.len() * 2 + 4096;
    let mut shape = Fnv::default();
    shape.str(&op);
    shape.str(jstr(plan, "sym"));
    shape.str(jstr(plan, "aead"));
    shape.u64(ju64(plan, "chunk"));
    shape.str(consumer.label());
    rec.count(&format!("consumer:{}", consumer.label()));
    let nontrivial = !payload.is_empty() && (!matches!(sched, Sched::Full) || !matches!(consumer, Consumer::ReadToEnd));

    // ciphertexts for the decrypt ops come from the real encryptors under the reference schedule
    let enc_v1 = |src: SimReader| -> Result<Vec<u8>, String> {
        let mut rng = SimRng::new(rng_key, "lowlevel", false);
        let mut e = sym.stream_encryptor(&mut rng, &key, src).map_err(|e| e.to_string())?;
        let mut out = Vec::new();
        e.read_to_end(&mut out).map_err(|e| e.to_string())?;
        Ok(out)
    };
    let enc_v2 = |src: SimReader| -> Result<Vec<u8>, String> {
        let mut e = SymEncryptedProtectedData::encrypt_seipdv2_stream(sym, aead, chunk, &key, salt, src).map_err(|e| e.to_string())?;
        let mut out = Vec::new();
        e.read_to_end(&mut out).map_err(|e| e.to_string())?;
        Ok(out)
    };

    let site = format!("lowlevel:{op}:{}", consumer.label());
    let plan_consumer = consumer.clone();
    let run = |sched: Sched, faults: Vec<Fault>, reference: bool| -> OpRun {
        let consumer = if reference { Consumer::ReadToEnd } else { plan_consumer.clone() };
        match op.as_str() {
            "v1enc" => {
                let (src, log) = SimReader::new(payload.clone(), sched, faults);
                let result = guard(|| {
                    let mut rng = SimRng::new(rng_key, "lowlevel", false);
                    let mut e = sym.stream_encryptor(&mut rng, &key, src).map_err(|e| e.to_string())?;
                    let (data, end) = seams::drain_read(&mut e, &consumer, max);
                    end.map(|_| data).map_err(|e| format!("{:?}: {e}", e.kind()))
                });
                OpRun { result, log: seams::snap(&log) }
            }
            "v2enc" => {
                let (src, log) = SimReader::new(payload.clone(), sched, faults);
                let result = guard(|| {
                    let mut e = SymEncryptedProtectedData::encrypt_seipdv2_stream(sym, aead, chunk, &key, salt, src).map_err(|e| e.to_string())?;
                    let (data, end) = seams::drain_read(&mut e, &consumer, max);
                    end.map(|_| data).map_err(|e| format!("{:?}: {e}", e.kind()))
                });
                OpRun { result, log: seams::snap(&log) }
            }
            "v1dec" | "v1dec_stream" => {
                let ct = match enc_v1(SimReader::plain(&payload)) {
                    Ok(c) => Arc::new(c),
                    Err(e) => return OpRun { result: Ok(Err(format!("encrypt: {e}"))), log: SeamLog::default() },
                };
                let (src, log) = seams::sim_bufread(ct, sched, cap, faults);
                let mode = if op == "v1dec" { Seipdv1ReadMode::default() } else { Seipdv1ReadMode::Streaming };
                let result = guard(|| {
                    let mut d = StreamDecryptor::v1(sym, mode, &key, src).map_err(|e| e.to_string())?;
                    let (data, end) = seams::drain(&mut d, &consumer, max);
                    end.map(|_| data).map_err(|e| format!("{:?}: {e}", e.kind()))
                });
                OpRun { result, log: seams::snap(&log) }
            }
            "v2dec" => {
                let ct = match enc_v2(SimReader::plain(&payload)) {
                    Ok(c) => Arc::new(c),
                    Err(e) => return OpRun { result: Ok(Err(format!("encrypt: {e}"))), log: SeamLog::default() },
                };
                let (src, log) = seams::sim_bufread(ct, sched, cap, faults);
                let result = guard(|| {
                    let mut d = StreamDecryptor::v2(sym, aead, chunk, &salt, &key, src).map_err(|e| e.to_string())?;
                    let (data, end) = seams::drain(&mut d, &consumer, max);
                    end.map(|_| data).map_err(|e| format!("{:?}: {e}", e.kind()))
                });
                OpRun { result, log: seams::snap(&log) }
            }
            "norm" => {
                let (src, log) = SimReader::new(payload.clone(), sched, faults);
                let result = guard(|| {
                    let mut r = NormalizedReader::new(src, LineBreak::Crlf);
                    let (data, end) = seams::drain_read(&mut r, &consumer, max);
                    end.map(|_| data).map_err(|e| format!("{:?}: {e}", e.kind()))
                });
                OpRun { result, log: seams::snap(&log) }
            }
            "dearmor" => {
                let mut text = Vec::new();
                let headers: pgp::armor::Headers = plan["headers"]
                    .as_array()
                    .map(|a| {
                        let mut m = pgp::armor::Headers::new();
                        for kv in a {
                            m.entry(kv[0].as_str().unwrap_or("").to_string()).or_insert_with(Vec::new).push(kv[1].as_str().unwrap_or("").to_string());
                        }
                        m
                    })
                    .unwrap_or_default();
                let raw = RawBytes(payload.to_vec());
                if let Err(e) = pgp::armor::write(&raw, pgp::armor::BlockType::File, &mut text, Some(&headers), jbool(plan, "checksum")) {
                    return OpRun { result: Ok(Err(format!("armor: {e}"))), log: SeamLog::default() };
                }
                if jbool(plan, "crlf") {
                    text = String::from_utf8_lossy(&text).replace('\n', "\r\n").into_bytes();
                }
                let (src, log) = seams::sim_bufread(Arc::new(text), sched, cap, faults);
                let result = guard(|| {
                    let mut d = pgp::armor::Dearmor::new(src);
                    let (data, end) = seams::drain_read(&mut d, &consumer, max);
                    end.map(|_| data).map_err(|e| format!("{:?}: {e}", e.kind()))
                });
                OpRun { result, log: seams::snap(&log) }
            }
            "sign" | "verify" => {
                let k = keys::get(jstr(plan, "key"));
                let hash = workload::hash(jstr(plan, "hash"));
                let text = jbool(plan, "text");
                let sign = |src: SimReader| -> Result<DetachedSignature, String> {
                    let mut rng = SimRng::new(rng_key, "detached", false);
                    if text {
                        DetachedSignature::sign_text_data(&mut rng, &*k.secret, &Password::from(k.password), hash, src)
                    } else {
                        DetachedSignature::sign_binary_data(&mut rng, &*k.secret, &Password::from(k.password), hash, src)
                    }
                    .map_err(|e| e.to_string())
                };
                if op == "sign" {
                    let (src, log) = SimReader::new(payload.clone(), sched, faults);
                    let result = guard(|| sign(src).and_then(|s| s.to_bytes().map_err(|e| e.to_string())));
                    OpRun { result, log: seams::snap(&log) }
                } else {
                    let sig = match sign(SimReader::plain(&payload)) {
                        Ok(s) => s,
                        Err(e) => return OpRun { result: Ok(Err(format!("sign: {e}"))), log: SeamLog::default() },
                    };
                    let (src, log) = SimReader::new(payload.clone(), sched, faults);
                    let result = guard(|| sig.signature.verify(&k.public, src).map(|_| b"verified".to_vec()).map_err(|e| e.to_string()));
                    OpRun { result, log: seams::snap(&log) }
                }
            }
            _ => OpRun { result: Ok(Err("unknown op".into())), log: SeamLog::default() },
        }
    };
    if rec.samples.is_empty() {
        rec.sample(json!({"family":"op","op": op, "payload_len": payload.len(), "src_sched": plan["src_sched"], "consumer": plan["consumer"]}));
    }
    judge_source_op(plan, rec, shape.0, &site, &sched, nontrivial, &run);
}

pub struct RawBytes(pub Vec<u8>);
impl Serialize for RawBytes {
    fn to_writer<W: std::io::Write>(&self, w: &mut W) -> pgp::errors::Result<()> {
        w.write_all(&self.0)?;
        Ok(())
    }
    fn write_len(&self) -> usize {
        self.0.len()
    }
}

// ------------------------------------------------------------------ armor_write (sink faults)

fn gen_armor_write(ctx: &GenCtx) -> Vec<Value> {
    let n = ctx.n(2500, 60_000);
    (0..n)
        .map(|i| {
            let mut p = Planner::new(ctx.seed, "c09.armor_write", i as u64);
            let what = *p.pick(&["raw", "raw", "key", "pubkey", "sig", "cleartext"]);
            let len = if p.chance(1, 2) { p.range(0, 200) } else { p.range(0, 3000) };
            json!({"what": what, "payload": {"gen":"random","len": len, "key": p.u64()}, "checksum": p.chance(3,4),
                   "key": *p.pick(&["ed25519-v4","ed25519-v6","p256-v4","ed25519-v4-locked"]),
                   "sink_sched": p.sched().to_json(), "kinds": ["interrupted", *p.pick(&HARD_KINDS), "zero"], "persist": p.chance(1,3)})
        })
        .collect()
}

fn run_armor_write(plan: &Value, rec: &mut Rec) {
    let payload = payload_from_json(&plan["payload"]);
    let sched = Sched::from_json(&plan["sink_sched"]);
    let what = jstr(plan, "what").to_string();
    let k = keys::get(jstr(plan, "key"));
    let checksum = jbool(plan, "checksum");
    let site = format!("armor_write:{what}");
    let write = |w: &mut SimWriter| -> Result<(), String> {
        let opts = ArmorOptions { headers: None, include_checksum: checksum };
        match what.as_str() {
            "key" => k.secret.to_armored_writer(w, opts).map_err(|e| e.to_string()),
            "pubkey" => k.public.to_armored_writer(w, opts).map_err(|e| e.to_string()),
            "sig" => {
                let mut rng = SimRng::new(1, "aw", false);
                let s = DetachedSignature::sign_binary_data(&mut rng, &*k.secret, &Password::from(k.password), pgp::crypto::hash::HashAlgorithm::Sha256, &payload[..]).map_err(|e| e.to_string())?;
                s.to_armored_writer(w, opts).map_err(|e| e.to_string())
            }
            "cleartext" => {
                let mut rng = SimRng::new(1, "aw", false);
                let text = String::from_utf8_lossy(&crate::util::payload_from_json(&json!({"gen":"text","len": payload.len(), "key": 7}))).into_owned();
                let m = pgp::composed::CleartextSignedMessage::sign(&mut rng, &text, &*k.secret, &Password::from(k.password)).map_err(|e| e.to_string())?;
                m.to_armored_writer(w, opts).map_err(|e| e.to_string())
            }
            _ => pgp::armor::write(&RawBytes(payload.clone()), pgp::armor::BlockType::Message, w, None, checksum).map_err(|e| e.to_string()),
        }
    };
    let run = |sched: Sched, faults: Vec<Fault>| -> (Result<Result<(), String>, PanicInfo>, Vec<u8>, SeamLog) {
        let (mut w, out, log) = SimWriter::new(sched, faults, 200_000);
        let r = guard(|| write(&mut w));
        let o = out.lock().unwrap().clone();
        let l = log.lock().unwrap().clone();
        (r, o, l)
    };
    let (rr, ref_out, _) = run(Sched::Full, vec![]);
    if !matches!(rr, Ok(Ok(()))) {
        rec.count(&format!("skip:{site}:reference-failed"));
        return;
    }
    let (br, base_out, base_log) = run(sched.clone(), vec![]);
    rec.seam_calls += base_log.calls + base_log.flush_calls;
    let mut shape = Fnv::default();
    shape.str(&what);
    let only = plan.get("only");
    if only.is_none() {
        rec.count(&format!("sched:sink:{}", sched.label()));
        let mut h = Fnv(shape.0);
        h.u64(base_log.hash.0);
        rec.eval(h.0, !matches!(sched, Sched::Full));
        rec.sample(json!({"family":"armor_write","what": what, "sink_sched": plan["sink_sched"], "sink_calls": base_log.calls, "out_len": base_out.len()}));
        match &br {
            Err(p) => rec.violation("panic", &norm_loc(&p.loc), format!("{site}: panic under short writes: {}", p.msg), plan.clone()),
            Ok(Err(e)) => rec.violation("result-differs", &site, format!("fails under short writes: {e}"), plan.clone()),
            Ok(Ok(())) => {
                if base_out != ref_out {
                    rec.violation("output-differs", &site, format!("armor output depends on the sink schedule: {} vs {} bytes", base_out.len(), ref_out.len()), plan.clone());
                }
            }
        }
    }
    let kinds: Vec<String> = plan["kinds"].as_array().map(|a| a.iter().filter_map(|x| x.as_str().map(String::from)).collect()).unwrap_or_default();
    let mut cases: Vec<Fault> = Vec::new();
    if let Some(o) = only {
        cases.push(Fault::from_json(o));
    } else {
        let pts = |n: u64| -> Vec<usize> {
            let n = n as usize;
            if n <= 80 {
                (0..n).collect()
            } else {
                let mut v: Vec<usize> = (0..20).chain(n - 20..n).collect();
                v.extend((20..n - 20).step_by((n - 40) / 40 + 1));
                v
            }
        };
        for kind in &kinds {
            for k in pts(base_log.calls) {
                cases.push(Fault { at_call: Some(k), at_byte: None, op: "write".into(), kind: kind.clone(), persist: jbool(plan, "persist") && kind != "interrupted" });
            }
            if kind != "zero" {
                for k in pts(base_log.flush_calls) {
                    cases.push(Fault { at_call: Some(k), at_byte: None, op: "flush".into(), kind: kind.clone(), persist: false });
                }
            }
        }
    }
    for f in cases {
        let (r, out, log) = run(sched.clone(), vec![f.clone()]);
        rec.seam_calls += log.calls + log.flush_calls;
        let fired = !log.fired.is_empty();
        let mut h = Fnv(shape.0);
        h.u64(log.hash.0);
        h.str(&f.label());
        rec.eval(h.0, fired);
        rec.count(&if fired { format!("fault:{}", f.label()) } else { "probe:fault-not-reached".to_string() });
        let mut vplan = plan.clone();
        vplan["only"] = f.to_json();
        match &r {
            Err(p) if p.msg.contains(LIVELOCK_MARK) => rec.violation("livelock", &site, "kept writing to a failing sink".into(), vplan),
            Err(p) => rec.violation("panic", &norm_loc(&p.loc), format!("{site}: panic after injected {} on {} call {:?}: {}", f.kind, f.op, f.at_call, p.msg), vplan),
            Ok(Ok(())) => {
                if out != ref_out {
                    let class = if f.kind == "interrupted" || f.kind == "zero" { "ok-with-different-bytes" } else { "ok-after-hard-error" };
                    rec.violation(class, &site, format!("{} on {} call {:?}: Ok returned, output {} of {} bytes", f.kind, f.op, f.at_call, out.len(), ref_out.len()), vplan);
                } else if fired && f.kind != "interrupted" && f.kind != "zero" {
                    rec.violation("ok-after-hard-error", &site, format!("{} on {} call {:?} was swallowed", f.kind, f.op, f.at_call), vplan);
                }
            }
            Ok(Err(_)) => {
                if !fired {
                    rec.violation("result-differs", &site, "failed though the fault never fired".into(), vplan);
                }
            }
        }
        if log.budget_exceeded && !matches!(&r, Err(p) if p.msg.contains(LIVELOCK_MARK)) {
            let mut vplan = plan.clone();
            vplan["only"] = f.to_json();
            rec.violation("livelock", &site, "sink step budget exceeded".into(), vplan);
        }
    }
}
