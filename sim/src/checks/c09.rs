//! C09 — streaming is transparent: results independent of I/O fragmentation and faults.

use std::sync::Arc;

use serde_json::{json, Value};

use crate::{
    rng::SimRng,
    runner::{guard, norm_loc, Check, Family, GenCtx, Rec, Tier},
    seams::{self, Consumer, Fault, Sched, SimReader, SimWriter, LIVELOCK_MARK},
    util::{fnv_of, jbool, jstr, ju64, payload_from_json, Fnv, Planner},
    workload::{self, Opener, ReadOutcome, ReadSpec, Source},
};

pub fn check() -> Check {
    Check {
        property: "C09",
        level: "fault_enumeration",
        rule: "seeded swarm of explicit plans {builder/reader configuration, payload, source schedule, BufReader capacity, sink schedule, consumer script, one injected I/O fault}; for payloads <= 2 KiB every fault point (each source read, sink write and flush call of the fault-free run) is swept per fault kind. A case is non-trivial when the fault actually fired inside an rpgp call (fault runs) or when a non-full schedule/consumer was in force on a non-empty payload (fault-free runs); distinct = distinct hash of (configuration shape, seam event log, outcome class).",
        families: {
            let mut f = vec![
                Family { name: "builder_nofault", gen: gen_builder_nofault, run: run_builder },
                Family { name: "builder_fault", gen: gen_builder_fault, run: run_builder },
                Family { name: "reader_nofault", gen: gen_reader_nofault, run: run_reader },
                Family { name: "reader_fault", gen: gen_reader_fault, run: run_reader },
            ];
            f.extend(super::c09b::families());
            f
        },
        assumptions: vec![
            "errors are judged at the first non-Interrupted error; stickiness of errors on later calls is not demanded",
            "Interrupted is retried by the consumer exactly as std's read_to_end/read_to_string/io::copy/read_exact do",
            "truncation (early EOF without an error) is out of scope here; it is decided by C03 and C17",
        ],
        real: vec!["pgp::composed::MessageBuilder (all generator layers)", "pgp::composed::Message reader stack", "pgp::armor (writer and Dearmor)", "RustCrypto / flate2(zlib-rs) / bzip2 dependencies"],
        stubs: vec!["SimReader/SimWriter (source and sink seams)", "consumer driver", "SimRng (ChaCha20 from the plan)", "simulated clock (rpgp_verif hook)"],
    }
}

// ------------------------------------------------------------------ builder

fn shape_hash(cfg: &Value) -> u64 {
    let mut f = Fnv::default();
    for k in ["source", "data_mode", "partial", "compression", "sign_text", "armor", "checksum"] {
        f.str(&cfg[k].to_string());
    }
    f.str(&cfg["enc"].to_string());
    f.u64(cfg["signers"].as_array().map(|a| a.len()).unwrap_or(0) as u64);
    f.u64(cfg["recipients"].as_array().map(|a| a.len()).unwrap_or(0) as u64);
    f.u64(cfg["passwords"].as_array().map(|a| a.len()).unwrap_or(0) as u64);
    f.0
}

fn gen_builder_nofault(ctx: &GenCtx) -> Vec<Value> {
    let n = ctx.n(9000, 300_000);
    (0..n)
        .map(|i| {
            let mut p = Planner::new(ctx.seed, "c09.builder_nofault", i as u64);
            let exp = p.chance(1, 12);
            let mut cfg = workload::plan_cfg(&mut p, ctx.tier == Tier::Thorough, exp);
            cfg["source"] = json!("reader");
            let big = p.chance(1, 10);
            let mut payload = workload::plan_payload(&mut p, &cfg, if big { 70_000 } else { 12_000 });
            let mut src_sched = p.sched();
            if jstr(&cfg, "data_mode") == "utf8" && p.chance(1, 3) {
                // text the builder must refuse (one illegal line ending), whatever the read schedule
                payload = json!({"gen": "utf8defect", "len": p.range(0, 120), "key": p.u64()});
                if p.chance(1, 2) {
                    src_sched = if p.chance(1, 2) { Sched::Fixed(p.range(1, 3)) } else { Sched::List((0..p.range(2, 12)).map(|_| p.range(1, 4)).collect()) };
                }
            }
            json!({"cfg": cfg, "payload": payload, "src_sched": src_sched.to_json(), "sink_sched": p.sched().to_json()})
        })
        .collect()
}

const HARD_KINDS: [&str; 6] = ["other", "broken_pipe", "unexpected_eof", "would_block", "timed_out", "storage_full"];

fn gen_builder_fault(ctx: &GenCtx) -> Vec<Value> {
    let n = ctx.n(2500, 60_000);
    (0..n)
        .map(|i| {
            let mut p = Planner::new(ctx.seed, "c09.builder_fault", i as u64);
            let mut cfg = workload::plan_cfg(&mut p, ctx.tier == Tier::Thorough, false);
            cfg["source"] = json!("reader");
            let sweep = p.chance(2, 3);
            let mut payload = workload::plan_payload(&mut p, &cfg, if sweep { 2048 } else { 40_000 });
            if jstr(&cfg, "data_mode") == "utf8" && p.chance(1, 3) {
                // text the builder must refuse: an illegal line ending, or a multi-octet character cut short
                payload = json!({"gen": *p.pick(&["utf8defect", "utf8trunc"]), "len": p.range(4, 200), "key": p.u64()});
            }
            let kinds: Vec<&str> = vec!["interrupted", *p.pick(&HARD_KINDS), "zero"];
            json!({"cfg": cfg, "payload": payload, "src_sched": p.sched().to_json(), "sink_sched": p.sched().to_json(),
                   "sweep": sweep, "kinds": kinds, "persist": p.chance(1,3), "pick": p.u64()})
        })
        .collect()
}

struct BuildRun {
    result: Result<Result<(), String>, crate::runner::PanicInfo>,
    out: Vec<u8>,
    src: seams::SeamLog,
    sink: seams::SeamLog,
}

fn do_build(cfg: &Value, payload: &Arc<Vec<u8>>, src_sched: Sched, sink_sched: Sched, faults: &[Fault]) -> BuildRun {
    let src_faults: Vec<Fault> = faults.iter().filter(|f| f.op == "read").cloned().collect();
    let sink_faults: Vec<Fault> = faults.iter().filter(|f| f.op != "read").cloned().collect();
    let (reader, src_log) = SimReader::new(payload.clone(), src_sched, src_faults);
    let budget = 6 * payload.len() as u64 + 20_000;
    let (writer, out, sink_log) = SimWriter::new(sink_sched, sink_faults, budget);
    let mut rng = SimRng::new(ju64(cfg, "rng_key"), "builder", jbool(cfg, "bias"));
    let result = guard(|| {
        let (r, _info) = workload::build(cfg, Source::Reader(reader), &mut rng, writer);
        r.map_err(|e| format!("{e}"))
    });
    let out = out.lock().unwrap().clone();
    let src = src_log.lock().unwrap().clone();
    let sink = sink_log.lock().unwrap().clone();
    BuildRun { result, out, src, sink }
}

fn run_builder(plan: &Value, rec: &mut Rec) {
    let cfg = &plan["cfg"];
    let payload = Arc::new(payload_from_json(&plan["payload"]));
    let src_sched = Sched::from_json(&plan["src_sched"]);
    let sink_sched = Sched::from_json(&plan["sink_sched"]);
    let shape = shape_hash(cfg);

    // reference: fault-free, S-full on both seams
    let reference = do_build(cfg, &payload, Sched::Full, Sched::Full, &[]);
    let ref_ok = matches!(reference.result, Ok(Ok(())));
    if let Err(p) = &reference.result {
        // a panic without any fault or schedule is not C09's to report (C01/C04 do)
        rec.count("probe:reference-build-panicked");
        let _ = p;
        return;
    }

    // the scheduled, fault-free run
    let base = do_build(cfg, &payload, src_sched.clone(), sink_sched.clone(), &[]);
    rec.seam_calls += base.src.calls + base.sink.calls + base.sink.flush_calls;
    rec.count(&format!("sched:src:{}", src_sched.label()));
    rec.count(&format!("sched:sink:{}", sink_sched.label()));
    let only = plan.get("only");
    if only.is_none() {
        let nontrivial = !payload.is_empty() && (!matches!(src_sched, Sched::Full) || !matches!(sink_sched, Sched::Full));
        let mut h = Fnv(shape);
        h.u64(base.src.hash.0);
        h.u64(base.sink.hash.0);
        rec.eval(h.0, nontrivial);
        if payload.len() >= plan["cfg"]["partial"].as_u64().unwrap_or(u64::MAX) as usize {
            rec.count("probe:payload-spans-partial-chunk");
        }
        rec.sample(json!({"family":"builder","cfg": cfg, "payload_len": payload.len(), "src_sched": plan["src_sched"], "sink_sched": plan["sink_sched"],
                          "source_calls": base.src.calls, "sink_calls": base.sink.calls, "out_len": base.out.len()}));
        match (&base.result, ref_ok) {
            (Err(p), _) => rec.violation("panic", &norm_loc(&p.loc), format!("builder panicked under a fault-free schedule: {}", p.msg), plan.clone()),
            (Ok(Ok(())), true) => {
                if base.out != reference.out {
                    let at = base.out.iter().zip(reference.out.iter()).position(|(a, b)| a != b).unwrap_or(base.out.len().min(reference.out.len()));
                    rec.violation(
                        "output-differs",
                        "builder",
                        format!("builder output depends on the I/O schedule: {} vs {} bytes, first difference at {}", base.out.len(), reference.out.len(), at),
                        plan.clone(),
                    );
                }
            }
            (Ok(Err(_)), false) => rec.count("probe:refused-by-reference-and-by-scheduled-build"),
            (Ok(Ok(())), false) => rec.violation("result-differs", "builder", format!("reference build failed ({:?}) but scheduled build succeeded", reference.result), plan.clone()),
            (Ok(Err(e)), true) => rec.violation("result-differs", "builder", format!("scheduled build failed though no fault was injected: {e}"), plan.clone()),
        }
        if base.src.budget_exceeded || base.sink.budget_exceeded {
            rec.violation("livelock", "builder", "seam step budget exceeded without any fault".into(), plan.clone());
        }
    }

    // fault runs
    let kinds: Vec<String> = plan["kinds"].as_array().map(|a| a.iter().filter_map(|x| x.as_str().map(String::from)).collect()).unwrap_or_default();
    if kinds.is_empty() && only.is_none() {
        return;
    }
    if !ref_ok {
        // The input itself is refused (illegal text for the data mode).  A transient Interrupted on a source
        // read - retried by the library's fill loops - must not turn that refusal into a success.
        let calls = base.src.calls as usize;
        let pts: Vec<usize> = match only {
            Some(o) => vec![Fault::from_json(o).at_call.unwrap_or(0)],
            None if kinds.iter().any(|k| k == "interrupted") => (0..calls.min(60)).collect(),
            None => vec![],
        };
        for k in pts {
            let f = Fault { at_call: Some(k), at_byte: None, op: "read".into(), kind: "interrupted".into(), persist: false };
            let run = do_build(cfg, &payload, src_sched.clone(), sink_sched.clone(), &[f.clone()]);
            let fired = !run.src.fired.is_empty();
            let mut h = Fnv(shape);
            h.u64(run.src.hash.0);
            h.str(&f.label());
            rec.eval(h.0 ^ 0x77, fired);
            if fired {
                rec.count("fault:F-eintr:read:on-refused-input");
            }
            let mut vplan = plan.clone();
            vplan["only"] = f.to_json();
            match &run.result {
                Err(p) => rec.violation("panic", &norm_loc(&p.loc), format!("builder panicked after an Interrupted on source call {k}: {}", p.msg), vplan),
                Ok(Ok(())) if fired => rec.violation(
                    "result-differs",
                    "builder:read",
                    format!("the input is refused without faults ({:?}); with a single Interrupted on source call {k} the build succeeds ({} octets written)", reference.result, run.out.len()),
                    vplan,
                ),
                _ => {}
            }
        }
        return;
    }
    let mut cases: Vec<Fault> = Vec::new();
    if let Some(o) = only {
        cases.push(Fault::from_json(o));
    } else {
        let persist = jbool(plan, "persist");
        let points = |n: u64| -> Vec<usize> {
            let n = n as usize;
            if jbool(plan, "sweep") {
                if n <= 120 {
                    (0..n).collect()
                } else {
                    let mut v: Vec<usize> = (0..30).chain(n - 30..n).collect();
                    let step = (n - 60) / 60 + 1;
                    v.extend((30..n - 30).step_by(step));
                    v
                }
            } else {
                let pick = ju64(plan, "pick") as usize;
                if n == 0 {
                    vec![]
                } else {
                    vec![0, n - 1, pick % n, (pick / 7) % n]
                }
            }
        };
        for kind in &kinds {
            if kind == "zero" {
                for k in points(base.sink.calls) {
                    cases.push(Fault { at_call: Some(k), at_byte: None, op: "write".into(), kind: kind.clone(), persist });
                }
                continue;
            }
            for k in points(base.src.calls) {
                cases.push(Fault { at_call: Some(k), at_byte: None, op: "read".into(), kind: kind.clone(), persist: persist && kind != "interrupted" });
            }
            for k in points(base.sink.calls) {
                cases.push(Fault { at_call: Some(k), at_byte: None, op: "write".into(), kind: kind.clone(), persist: persist && kind != "interrupted" });
            }
            for k in points(base.sink.flush_calls) {
                cases.push(Fault { at_call: Some(k), at_byte: None, op: "flush".into(), kind: kind.clone(), persist: false });
            }
        }
    }
    for f in cases {
        let run = do_build(cfg, &payload, src_sched.clone(), sink_sched.clone(), std::slice::from_ref(&f));
        rec.seam_calls += run.src.calls + run.sink.calls + run.sink.flush_calls;
        let fired = !run.src.fired.is_empty() || !run.sink.fired.is_empty();
        let mut h = Fnv(shape);
        h.u64(run.src.hash.0);
        h.u64(run.sink.hash.0);
        h.str(&f.label());
        let class = match &run.result {
            Err(_) => 3u64,
            Ok(Ok(())) => 1,
            Ok(Err(_)) => 2,
        };
        h.u64(class);
        rec.eval(h.0, fired);
        if fired {
            rec.count(&format!("fault:{}", f.label()));
        } else {
            rec.count("probe:fault-not-reached");
        }
        let mut vplan = plan.clone();
        vplan["only"] = f.to_json();
        let site = format!("builder:{}", f.op);
        match &run.result {
            Err(p) if p.msg.contains(LIVELOCK_MARK) => rec.violation("livelock", &site, "builder kept calling a failing seam beyond twice the step budget".into(), vplan),
            Err(p) => rec.violation("panic", &norm_loc(&p.loc), format!("builder panicked after injected {} on {} call {:?}: {}", f.kind, f.op, f.at_call, p.msg), vplan),
            Ok(Ok(())) => {
                if !fired {
                    if run.out != reference.out {
                        rec.violation("output-differs", &site, "fault did not fire yet output differs".into(), vplan);
                    }
                } else if f.kind == "interrupted" || f.kind == "zero" {
                    if run.out != reference.out {
                        rec.violation(
                            "ok-with-different-bytes",
                            &site,
                            format!("transient {} on {} call {:?}: Ok returned but output differs ({} vs {} bytes)", f.kind, f.op, f.at_call, run.out.len(), reference.out.len()),
                            vplan,
                        );
                    }
                } else {
                    rec.violation(
                        "ok-after-hard-error",
                        &site,
                        format!("{} error injected on {} call {:?} was swallowed: builder returned Ok, output {} of {} bytes", f.kind, f.op, f.at_call, run.out.len(), reference.out.len()),
                        vplan,
                    );
                }
            }
            Ok(Err(e)) => {
                if !fired {
                    rec.violation("result-differs", &site, format!("build failed though the fault never fired: {e}"), vplan);
                }
            }
        }
        if (run.src.budget_exceeded || run.sink.budget_exceeded) && !matches!(&run.result, Err(p) if p.msg.contains(LIVELOCK_MARK)) {
            let mut vplan = plan.clone();
            vplan["only"] = f.to_json();
            rec.violation("livelock", &site, "seam step budget exceeded".into(), vplan);
        }
    }
}

// ------------------------------------------------------------------ reader

fn gen_reader_nofault(ctx: &GenCtx) -> Vec<Value> {
    let n = ctx.n(9000, 300_000);
    (0..n)
        .map(|i| {
            let mut p = Planner::new(ctx.seed, "c09.reader_nofault", i as u64);
            let exp = p.chance(1, 12);
            let cfg = workload::plan_cfg(&mut p, ctx.tier == Tier::Thorough, exp);
            let big = p.chance(1, 10);
            let payload = workload::plan_payload(&mut p, &cfg, if big { 70_000 } else { 12_000 });
            let text = matches!(jstr(&payload, "gen"), "text" | "utf8crlf" | "lowent" | "zeros");
            json!({"cfg": cfg, "payload": payload, "src_sched": p.sched().to_json(),
                   "cap": *p.pick(&[1usize,2,3,4,5,8,64,512,8192,8192,65536]),
                   "consumer": p.consumer(text).to_json(), "opener": p.below(8), "extended": p.chance(1, 6)})
        })
        .collect()
}

fn gen_reader_fault(ctx: &GenCtx) -> Vec<Value> {
    let n = ctx.n(2500, 60_000);
    (0..n)
        .map(|i| {
            let mut p = Planner::new(ctx.seed, "c09.reader_fault", i as u64);
            let cfg = workload::plan_cfg(&mut p, ctx.tier == Tier::Thorough, false);
            let sweep = p.chance(2, 3);
            let payload = workload::plan_payload(&mut p, &cfg, if sweep { 2048 } else { 40_000 });
            let text = matches!(jstr(&payload, "gen"), "text" | "utf8crlf" | "lowent" | "zeros");
            let kinds: Vec<&str> = vec!["interrupted", *p.pick(&HARD_KINDS)];
            json!({"cfg": cfg, "payload": payload, "src_sched": p.sched().to_json(),
                   "cap": *p.pick(&[1usize,3,8,64,512,8192,8192]),
                   "consumer": p.consumer(text).to_json(), "opener": p.below(8),
                   "sweep": sweep, "kinds": kinds, "persist": p.chance(1,3), "pick": p.u64()})
        })
        .collect()
}

struct ReadRun {
    result: Result<ReadOutcome, crate::runner::PanicInfo>,
    log: seams::SeamLog,
}

#[allow(clippy::too_many_arguments)]
fn do_read(artifact: &Arc<Vec<u8>>, armor: bool, opener: &Opener, verifiers: &[&'static str], sched: Sched, cap: usize, consumer: &Consumer, faults: Vec<Fault>, max: usize) -> ReadRun {
    let (input, log) = seams::sim_bufread(artifact.clone(), sched, cap, faults);
    let spec = ReadSpec { armor, opener: opener.clone(), consumer, verifiers: verifiers.to_vec(), max, streaming_v1: false, v1_limit: None, opts: 0 };
    let result = guard(|| workload::read_message(input, &spec));
    let log = log.lock().unwrap().clone();
    ReadRun { result, log }
}

fn outcome_class(o: &ReadOutcome) -> u64 {
    match &o.end {
        Ok(()) => 1,
        Err(_) => match o.stage {
            "parse" => 2,
            "decrypt" => 3,
            "decompress" => 4,
            "read" => 5,
            _ => 6,
        },
    }
}

fn run_reader(plan: &Value, rec: &mut Rec) {
    let cfg = &plan["cfg"];
    let payload = payload_from_json(&plan["payload"]);
    let (built, info) = workload::build_reference(cfg, &payload, ju64(cfg, "rng_key"), jbool(cfg, "bias"));
    let artifact = match built {
        Ok(a) => a,
        Err(e) => {
            let e = format!("{e}");
            rec.count(&format!("skip:reference-build-failed:{}", &e[..e.len().min(60)]));
            return;
        }
    };
    // "extended": the message is followed by a packet that does not belong there (not for armored ones,
    // where the armor ends the data) - a stream the reader refuses, under every schedule and access mode
    let mut artifact = artifact;
    let extended = jbool(plan, "extended") && !jbool(cfg, "armor");
    if extended {
        let extra = crate::model::framer::frame(11, &[b'b', 0, 0, 0, 0, 0, b'x', b'y'], &crate::model::framer::LenForm::NewMinimal).unwrap_or_default();
        if ju64(plan, "opener") % 2 == 0 {
            artifact.extend_from_slice(&extra);
        } else {
            let copy = artifact.clone();
            artifact.extend_from_slice(&copy);
        }
    }
    let artifact = Arc::new(artifact);
    let armor = jbool(cfg, "armor");
    let opener = workload::default_opener(cfg, &info, ju64(plan, "opener") as usize);
    let verifiers = workload::verifier_names(cfg);
    let consumer = Consumer::from_json(&plan["consumer"]);
    let sched = Sched::from_json(&plan["src_sched"]);
    let cap = plan["cap"].as_u64().unwrap_or(8192) as usize;
    let max = payload.len() + 1024;
    let shape = shape_hash(cfg);

    let reference = do_read(&artifact, armor, &opener, &verifiers, Sched::Full, 8192, &Consumer::ReadToEnd, vec![], max);
    let Ok(refo) = &reference.result else {
        rec.count("probe:reference-read-panicked");
        return;
    };
    if let (Err(_), true) = (&refo.end, extended) {
        // refused by the reference read: the scheduled read through the plan's consumer must refuse it too
        let base = do_read(&artifact, armor, &opener, &verifiers, sched.clone(), cap, &consumer, vec![], max);
        rec.seam_calls += base.log.calls;
        let mut h = Fnv(shape);
        h.u64(base.log.hash.0);
        h.str(consumer.label());
        rec.eval(h.0 ^ 0xE7, true);
        rec.count("probe:extended-message-refused-by-the-reference");
        match &base.result {
            Err(p) => rec.violation("panic", &norm_loc(&p.loc), format!("reader panicked on a message followed by another packet: {}", p.msg), plan.clone()),
            Ok(o) if o.end.is_ok() => rec.violation(
                "result-differs",
                &format!("reader:{}", consumer.label()),
                format!("a message followed by another packet is refused when read in one piece with read_to_end ({:?}); under the plan's schedule and consumer it reads to a clean end ({} bytes)", refo.end, o.data.len()),
                plan.clone(),
            ),
            Ok(_) => {}
        }
        return;
    }
    if let Err(e) = &refo.end {
        rec.count(&format!("skip:reference-read-failed:{}:{}", refo.stage, &e[..e.len().min(60)]));
        if std::env::var("VERIF_DEBUG").is_ok() {
            eprintln!("DEBUG reference-read-failed {e}: {plan}");
        }
        return;
    }

    let base = do_read(&artifact, armor, &opener, &verifiers, sched.clone(), cap, &consumer, vec![], max);
    rec.seam_calls += base.log.calls;
    let only = plan.get("only");
    if only.is_none() {
        rec.count(&format!("sched:src:{}", sched.label()));
        rec.count(&format!("consumer:{}", consumer.label()));
        let mut h = Fnv(shape);
        h.u64(base.log.hash.0);
        h.str(consumer.label());
        let nontrivial = !payload.is_empty() && (!matches!(sched, Sched::Full) || !matches!(consumer, Consumer::ReadToEnd) || cap != 8192);
        rec.eval(h.0, nontrivial);
        rec.sample(json!({"family":"reader","cfg": cfg, "payload_len": payload.len(), "artifact_len": artifact.len(), "src_sched": plan["src_sched"], "cap": cap,
                          "consumer": plan["consumer"], "source_calls": base.log.calls}));
        match &base.result {
            Err(p) => rec.violation("panic", &norm_loc(&p.loc), format!("reader panicked under a fault-free schedule: {}", p.msg), plan.clone()),
            Ok(o) => {
                let site = format!("reader:{}", consumer.label());
                if let Err(e) = &o.end {
                    rec.violation("result-differs", &site, format!("reference read succeeded; scheduled read failed at stage {}: {e}", o.stage), plan.clone());
                } else if o.data != refo.data {
                    rec.violation("output-differs", &site, format!("payload depends on the schedule/consumer: {} vs {} bytes", o.data.len(), refo.data.len()), plan.clone());
                } else if o.verdicts != refo.verdicts || o.num_signatures != refo.num_signatures {
                    rec.violation("verdict-differs", &site, format!("verification verdicts depend on the schedule/consumer: {:?} vs {:?}", o.verdicts, refo.verdicts), plan.clone());
                } else if (o.mode_utf8, &o.file_name, o.created, o.header_seen) != (refo.mode_utf8, &refo.file_name, refo.created, refo.header_seen) {
                    rec.violation("metadata-differs", &site, "literal metadata depends on the schedule/consumer".into(), plan.clone());
                }
            }
        }
        if base.log.budget_exceeded {
            rec.violation("livelock", "reader", "source step budget exceeded without a fault".into(), plan.clone());
        }
    }

    let kinds: Vec<String> = plan["kinds"].as_array().map(|a| a.iter().filter_map(|x| x.as_str().map(String::from)).collect()).unwrap_or_default();
    if kinds.is_empty() && only.is_none() {
        return;
    }
    let mut cases: Vec<Fault> = Vec::new();
    if let Some(o) = only {
        cases.push(Fault::from_json(o));
    } else {
        let n = base.log.calls as usize;
        let pts: Vec<usize> = if jbool(plan, "sweep") {
            if n <= 150 {
                (0..n).collect()
            } else {
                let mut v: Vec<usize> = (0..40).chain(n - 40..n).collect();
                let step = (n - 80) / 70 + 1;
                v.extend((40..n - 40).step_by(step));
                v
            }
        } else if n == 0 {
            vec![]
        } else {
            let pick = ju64(plan, "pick") as usize;
            vec![0, n - 1, n.saturating_sub(2), pick % n, (pick / 7) % n]
        };
        for kind in &kinds {
            for &k in &pts {
                cases.push(Fault { at_call: Some(k), at_byte: None, op: "read".into(), kind: kind.clone(), persist: jbool(plan, "persist") && kind != "interrupted" });
            }
        }
    }
    for f in cases {
        let run = do_read(&artifact, armor, &opener, &verifiers, sched.clone(), cap, &consumer, vec![f.clone()], max);
        rec.seam_calls += run.log.calls;
        let fired = !run.log.fired.is_empty();
        let mut h = Fnv(shape);
        h.u64(run.log.hash.0);
        h.str(&f.label());
        h.str(consumer.label());
        h.u64(match &run.result {
            Err(_) => 9,
            Ok(o) => outcome_class(o),
        });
        rec.eval(h.0, fired);
        if fired {
            rec.count(&format!("fault:{}", f.label()));
        } else {
            rec.count("probe:fault-not-reached");
        }
        let mut vplan = plan.clone();
        vplan["only"] = f.to_json();
        let site = format!("reader:{}", consumer.label());
        match &run.result {
            Err(p) if p.msg.contains(LIVELOCK_MARK) => rec.violation("livelock", &site, "reader kept calling a failing source".into(), vplan),
            Err(p) => rec.violation("panic", &norm_loc(&p.loc), format!("reader panicked after injected {} on source call {:?} (consumer {}): {}", f.kind, f.at_call, consumer.label(), p.msg), vplan),
            Ok(o) => {
                let clean = o.end.is_ok();
                if clean {
                    if fired && f.kind == "unexpected_eof" {
                        // EOF-class fault (see DESIGN §8): rpgp signals end-of-stream between packets with
                        // ErrorKind::UnexpectedEof itself, so a source raising that kind exactly where the
                        // stream may end is indistinguishable from EOF.  What must never happen is a clean
                        // *shorter* (or otherwise different) result.
                        if o.data != refo.data || o.verdicts != refo.verdicts {
                            rec.violation(
                                "clean-shorter-after-error",
                                &site,
                                format!("source raised UnexpectedEof at call {:?}; clean end with {} of {} bytes", f.at_call, o.data.len(), refo.data.len()),
                                vplan,
                            );
                        }
                    } else if fired && f.kind != "interrupted" {
                        rec.violation(
                            "clean-end-after-hard-error",
                            &site,
                            format!("source raised {} at call {:?}; the consumer saw a clean end with {} of {} bytes", f.kind, f.at_call, o.data.len(), refo.data.len()),
                            vplan,
                        );
                    } else if o.data != refo.data {
                        rec.violation("ok-with-different-bytes", &site, format!("clean end with {} bytes, reference has {}", o.data.len(), refo.data.len()), vplan);
                    } else if o.verdicts != refo.verdicts {
                        rec.violation("verdict-differs", &site, format!("{:?} vs {:?}", o.verdicts, refo.verdicts), vplan);
                    }
                } else {
                    if !fired {
                        rec.violation("result-differs", &site, format!("read failed though the fault never fired: {:?}", o.end), vplan);
                    } else if !refo.data.starts_with(&o.data) {
                        rec.violation("wrong-data-before-error", &site, format!("{} bytes released before the error are not a prefix of the payload", o.data.len()), vplan);
                    } else if f.kind != "interrupted" && o.stage == "read" {
                        // the same run with a consumer that reads on after the error: more errors, or a real
                        // resumption with the complete payload, but never a clean end with other content
                        seams::set_resume_after_error(true);
                        let again = do_read(&artifact, armor, &opener, &verifiers, sched.clone(), cap, &consumer, vec![f.clone()], max);
                        seams::set_resume_after_error(false);
                        rec.count("probe:consumer-reads-on-after-the-error");
                        match &again.result {
                            Err(p) if p.msg.contains(LIVELOCK_MARK) => {}
                            Err(p) => rec.violation("panic", &norm_loc(&p.loc), format!("reader panicked when read again after injected {} on source call {:?} (consumer {}): {}", f.kind, f.at_call, consumer.label(), p.msg), vplan),
                            Ok(o2) if o2.end.is_ok() && o2.data != refo.data => rec.violation(
                                "clean-shorter-after-error",
                                &site,
                                format!("source raised {} at call {:?}, which surfaced as an error; the consumer read on and reached a clean end with {} of {} bytes", f.kind, f.at_call, o2.data.len(), refo.data.len()),
                                vplan,
                            ),
                            Ok(o2) if o2.end.is_ok() => rec.count("probe:reader-resumed-after-the-error"),
                            Ok(_) => {}
                        }
                    }
                }
            }
        }
        if run.log.budget_exceeded && !matches!(&run.result, Err(p) if p.msg.contains(LIVELOCK_MARK)) {
            let mut vplan = plan.clone();
            vplan["only"] = f.to_json();
            rec.violation("livelock", &site, "source step budget exceeded".into(), vplan);
        }
    }
    let _ = fnv_of;
}
