//! C07 — generated keys are valid, self-consistent and usable for every seed and shape.

use std::sync::Arc;

use pgp::{
    composed::{ArmorOptions, Deserializable, DetachedSignature, DsaKeySize, EncryptionCaps, KeyType, Message, MessageBuilder, SecretKeyParamsBuilder, SignedPublicKey, SignedSecretKey, SubkeyParamsBuilder},
    crypto::{aead::AeadAlgorithm, ecc_curve::ECCCurve, hash::HashAlgorithm, sym::SymmetricKeyAlgorithm},
    packet::Signature,
    ser::Serialize,
    types::{CompressionAlgorithm, KeyDetails, KeyVersion, Password, Timestamp},
};
use serde_json::{json, Value};
use smallvec::SmallVec;

use crate::{
    rng::SimRng,
    runner::{guard, norm_loc, Check, Family, GenCtx, Rec},
    seams::{self, Sched, SimWriter},
    util::{jbool, jstr, ju64, jusize, Fnv, Planner},
};

pub fn check() -> Check {
    Check {
        property: "C07",
        level: "exploration",
        rule: "SecretKeyParams::generate driven from the RNG seam (one ChaCha20 stream per run, optionally with first octets of fill_bytes biased to 0x00/0xFF so that leading-zero scalars, MPIs and signature halves are common) and the clock seam (creation and self-signature times incl. 0, u32::MAX and jumps), over {v4, v6} x primary {Ed25519Legacy, Ed25519, Ed448, ECDSA P-256/P-384/P-521/secp256k1, RSA-2048, DSA-1024/2048} x 0..3 subkeys from {ECDH x4, X25519, X448, RSA, signing subkeys} x locked/unlocked x 0..3 user ids x preference lists; shapes outside the supported set (v6 with the legacy EdDSA / Curve25519 formats, v4 without a user id) are skipped, for every other shape a failing generate() is a violation; subkeys are protected independently of the primary (unprotected, the primary's passphrase, or their own). Oracle per key: verify_bindings on the secret key and its public half, binary and armored export through sink schedules and import through source schedules give an equal value with equal fingerprint and key id, requested flags and preferences are found in the self-signatures, every signing-capable (sub)key signs and its public half verifies (and nobody else's), every encryption-capable subkey decrypts a SEIPDv1 and a SEIPDv2 message encrypted to it. Non-trivial: always (a fresh key); distinct = (shape, RNG key) hash.",
        families: vec![Family { name: "keygen_cheap", gen: gen_cheap, run: run_keygen }, Family { name: "keygen_expensive", gen: gen_expensive, run: run_keygen }],
        assumptions: vec!["builder-rejected shapes are not violations", "fingerprint stability across export/import is recorded as a probe for the unclaimed C13"],
        real: vec!["SecretKeyParams::generate and all per-algorithm key generation", "self-signature and binding creation incl. embedded back signatures", "key (de)serialization and armor", "sign/verify and encrypt/decrypt with the generated keys"],
        stubs: vec!["SimRng (with bias mode)", "simulated clock", "hidden RNG for the p521 nonce", "SimWriter/SimReader"],
    }
}

const CHEAP_PRIMARY: [&str; 7] = ["ed25519", "ed25519legacy", "ed448", "p256", "k256", "p384", "p521"];
const CHEAP_SUB: [&str; 13] = ["x25519", "x448", "ecdh25519", "ecdhp256", "ecdhp384", "ecdhp521", "s:ed25519", "s:p256", "s:ed448", "s:ed25519legacy", "s:k256", "x25519", "ecdhp256"];

fn key_type(s: &str) -> KeyType {
    match s.trim_start_matches("s:") {
        "ed25519legacy" => KeyType::Ed25519Legacy,
        "ed448" => KeyType::Ed448,
        "p256" => KeyType::ECDSA(ECCCurve::P256),
        "p384" => KeyType::ECDSA(ECCCurve::P384),
        "p521" => KeyType::ECDSA(ECCCurve::P521),
        "k256" => KeyType::ECDSA(ECCCurve::Secp256k1),
        "rsa" => KeyType::Rsa(2048),
        "dsa1024" => KeyType::Dsa(DsaKeySize::B1024),
        "dsa2048" => KeyType::Dsa(DsaKeySize::B2048),
        "x25519" => KeyType::X25519,
        "x448" => KeyType::X448,
        "ecdh25519" => KeyType::ECDH(ECCCurve::Curve25519Legacy),
        "ecdhp256" => KeyType::ECDH(ECCCurve::P256),
        "ecdhp384" => KeyType::ECDH(ECCCurve::P384),
        "ecdhp521" => KeyType::ECDH(ECCCurve::P521),
        _ => KeyType::Ed25519,
    }
}

fn plan_key(p: &mut Planner, primaries: &[&str], subs: &[&str]) -> Value {
    let v6 = p.chance(1, 2);
    let nsub = p.below(4);
    let subkeys: Vec<Value> = (0..nsub)
        .map(|_| {
            let t = *p.pick(subs);
            json!({"type": t, "caps": *p.pick(&["all", "comm", "storage"]), "locked": p.chance(1, 4), "own_pw": p.chance(1, 2), "auth": p.chance(1, 6)})
        })
        .collect();
    let clock = match p.below(10) {
        0 => json!({"now": 0, "step": 0}),
        1 => json!({"now": u32::MAX, "step": 0}),
        2 => json!({"now": 1_750_000_000u32, "step": 7}),
        3 => json!({"now": 1_750_000_000u32, "step": -100_000}),
        _ => json!({"now": 1_750_000_000u32, "step": 0}),
    };
    json!({"v6": v6, "primary": *p.pick(primaries), "can_sign": p.chance(3,4), "can_auth": p.chance(1,5), "subkeys": subkeys,
           "locked": p.chance(1,4), "uids": p.below(4), "attrs": if p.chance(1,4) { p.range(1, 2) } else { 0 }, "prefs": p.chance(1,2), "seipd2": p.chance(1,2),
           "explicit_created": p.chance(1,3), "bias": p.chance(1,2), "rng_key": p.u64(), "clock": clock,
           "sink_sched": p.sched().to_json(), "src_sched": p.sched().to_json(), "cap": *p.pick(&[1usize, 5, 64, 8192])})
}

fn gen_cheap(ctx: &GenCtx) -> Vec<Value> {
    let n = ctx.n(20_000, 200_000);
    (0..n).map(|i| plan_key(&mut Planner::new(ctx.seed, "c07.cheap", i as u64), &CHEAP_PRIMARY, &CHEAP_SUB)).collect()
}

fn gen_expensive(ctx: &GenCtx) -> Vec<Value> {
    let n = ctx.n(64, 1000);
    (0..n)
        .map(|i| {
            let mut p = Planner::new(ctx.seed, "c07.expensive", i as u64);
            let prim = ["rsa", "rsa", "dsa1024", "dsa2048", "ed25519"];
            let subs = ["rsa", "s:rsa", "x25519", "ecdhp256"];
            let mut v = plan_key(&mut p, &prim, &subs);
            if jstr(&v, "primary").starts_with("dsa") {
                v["v6"] = json!(false);
            }
            v
        })
        .collect()
}

const KEY_PW: &str = "generated-key-pw";
const SUBKEY_PW: &str = "a different passphrase for this subkey";

/// passphrase of subkey plan `s` ("" = not protected): the primary's or one of its own
fn subkey_pw(s: &Value) -> &'static str {
    if !jbool(s, "locked") {
        ""
    } else if jbool(s, "own_pw") {
        SUBKEY_PW
    } else {
        KEY_PW
    }
}

/// Shapes outside "every supported combination": refused by design (RFC 9580: v6 keys do not use the
/// legacy EdDSA / Curve25519 formats; the builder wants a primary user id on v4 keys).  For every
/// other shape a failing build or generate() is a violation, not a skip.
fn shape_supported(plan: &Value) -> bool {
    let v6 = jbool(plan, "v6");
    let legacy = |t: &str| matches!(t.trim_start_matches("s:"), "ed25519legacy" | "ecdh25519");
    if v6 && (legacy(jstr(plan, "primary")) || plan["subkeys"].as_array().into_iter().flatten().any(|s| legacy(jstr(s, "type")))) {
        return false;
    }
    if !v6 && jusize(plan, "uids") == 0 {
        return false;
    }
    true
}

fn build_params(plan: &Value) -> Result<pgp::composed::SecretKeyParams, String> {
    let version = if jbool(plan, "v6") { KeyVersion::V6 } else { KeyVersion::V4 };
    let mut b = SecretKeyParamsBuilder::default();
    b.version(version)
        .key_type(key_type(jstr(plan, "primary")))
        .can_certify(true)
        .can_sign(jbool(plan, "can_sign"))
        .can_authenticate(jbool(plan, "can_auth"))
        .feature_seipd_v2(jbool(plan, "seipd2"));
    if jbool(plan, "explicit_created") {
        b.created_at(Timestamp::from_secs(1_234_567_890));
    }
    let cheap_s2k = |v6: bool, salt: u8| -> pgp::types::S2kParams {
        if v6 {
            pgp::types::S2kParams::Aead {
                sym_alg: SymmetricKeyAlgorithm::AES128,
                aead_mode: AeadAlgorithm::Ocb,
                s2k: pgp::types::StringToKey::Argon2 { salt: [salt; 16], t: 1, p: 1, m_enc: 3 },
                nonce: vec![salt; 15].into(),
            }
        } else {
            pgp::types::S2kParams::Cfb {
                sym_alg: SymmetricKeyAlgorithm::AES128,
                s2k: pgp::types::StringToKey::IteratedAndSalted { hash_alg: HashAlgorithm::Sha256, salt: [salt; 8], count: 0 },
                iv: vec![salt; 16].into(),
            }
        }
    };
    if jbool(plan, "locked") {
        b.passphrase(Some(KEY_PW.to_string())).s2k(Some(cheap_s2k(jbool(plan, "v6"), 1)));
    }
    let uids = jusize(plan, "uids");
    if uids > 0 {
        b.primary_user_id("Primary Person <primary@example.org>".into());
        for i in 1..uids {
            b.user_id(format!("Alias {i} <alias{i}@example.org>"));
        }
    }
    let attrs = jusize(plan, "attrs");
    if attrs > 0 {
        b.user_attributes(
            (0..attrs)
                .map(|i| {
                    let img: Vec<u8> = (0..(40 + 900 * i) as u32).map(|x| (x * 13 + i as u32) as u8).collect();
                    pgp::packet::UserAttribute::new_image(img.into()).map_err(|e| e.to_string())
                })
                .collect::<Result<Vec<_>, _>>()?,
        );
    }
    if jbool(plan, "prefs") {
        b.preferred_symmetric_algorithms(SmallVec::from_slice(&[SymmetricKeyAlgorithm::AES256, SymmetricKeyAlgorithm::AES128]))
            .preferred_hash_algorithms(SmallVec::from_slice(&[HashAlgorithm::Sha512, HashAlgorithm::Sha256]))
            .preferred_compression_algorithms(SmallVec::from_slice(&[CompressionAlgorithm::ZLIB, CompressionAlgorithm::ZIP]))
            .preferred_aead_algorithms(SmallVec::from_slice(&[(SymmetricKeyAlgorithm::AES128, AeadAlgorithm::Ocb)]));
    }
    for (i, s) in plan["subkeys"].as_array().into_iter().flatten().enumerate() {
        let t = jstr(s, "type");
        let signing = t.starts_with("s:");
        let mut sb = SubkeyParamsBuilder::default();
        sb.version(version).key_type(key_type(t));
        if signing {
            sb.can_sign(true).can_authenticate(jbool(s, "auth"));
        } else {
            sb.can_encrypt(match jstr(s, "caps") {
                "comm" => EncryptionCaps::Communication,
                "storage" => EncryptionCaps::Storage,
                _ => EncryptionCaps::All,
            });
        }
        if jbool(s, "locked") {
            sb.passphrase(Some(subkey_pw(s).to_string())).s2k(Some(cheap_s2k(jbool(plan, "v6"), 2 + i as u8)));
        }
        b.subkey(sb.build().map_err(|e| e.to_string())?);
    }
    b.build().map_err(|e| e.to_string())
}

fn self_sigs(k: &SignedPublicKey) -> Vec<&Signature> {
    let mut v: Vec<&Signature> = k.details.direct_signatures.iter().collect();
    for u in &k.details.users {
        v.extend(u.signatures.iter());
    }
    v
}

fn run_keygen(plan: &Value, rec: &mut Rec) {
    let mut h = Fnv::default();
    let mut shape = plan.clone();
    for k in ["sink_sched", "src_sched", "cap"] {
        shape.as_object_mut().unwrap().remove(k);
    }
    h.str(&shape.to_string());
    let params = match guard(|| build_params(plan)) {
        Err(p) => {
            rec.eval(h.0, true);
            rec.violation("panic", &norm_loc(&p.loc), format!("building key parameters panicked: {}", p.msg), plan.clone());
            return;
        }
        Ok(Err(e)) => {
            if shape_supported(plan) {
                rec.eval(h.0, true);
                rec.violation("generation-failed", "params", format!("building the parameters of a supported shape failed: {e}"), plan.clone());
            } else {
                rec.count(&format!("skip:builder-rejected:{}", &e[..e.len().min(40)]));
            }
            return;
        }
        Ok(Ok(p)) => p,
    };
    let mut rng = SimRng::new(ju64(plan, "rng_key"), "keygen", jbool(plan, "bias"));
    let key = match guard(|| params.generate(&mut rng).map_err(|e| e.to_string())) {
        Err(p) => {
            rec.eval(h.0, true);
            rec.violation("panic", &norm_loc(&p.loc), format!("key generation panicked: {}", p.msg), plan.clone());
            return;
        }
        Ok(Err(e)) => {
            if shape_supported(plan) {
                rec.eval(h.0, true);
                rec.violation("generation-failed", "generate", format!("generate() failed for a supported shape ({} {} subkeys={} locked={}): {e}", if jbool(plan, "v6") { "v6" } else { "v4" }, jstr(plan, "primary"), plan["subkeys"], jbool(plan, "locked")), plan.clone());
            } else {
                rec.count(&format!("skip:generate-rejected:{}", &e[..e.len().min(48)]));
            }
            return;
        }
        Ok(Ok(k)) => k,
    };
    rec.eval(h.0, true);
    rec.count(&format!("primary:{}:{}", jstr(plan, "primary"), if jbool(plan, "v6") { "v6" } else { "v4" }));
    if rng.biased > 0 {
        rec.count("fault:F-rng:biased-first-octet");
    }
    if plan["clock"]["now"].as_u64() != Some(1_750_000_000) || plan["clock"]["step"].as_i64() != Some(0) {
        rec.count("fault:F-clock:extreme-or-jumping");
    }
    rec.sample(json!({"v6": jbool(plan, "v6"), "primary": jstr(plan, "primary"), "subkeys": plan["subkeys"], "locked": jbool(plan, "locked"), "uids": jusize(plan, "uids"), "bias": jbool(plan, "bias"), "clock": plan["clock"]}));
    let desc = format!("{} {} subkeys={} locked={}", if jbool(plan, "v6") { "v6" } else { "v4" }, jstr(plan, "primary"), plan["subkeys"], jbool(plan, "locked"));
    let public = key.to_public_key();

    // leading-zero probes on the serialized material
    if let Ok(b) = key.to_bytes() {
        if b.windows(3).any(|w| w == [0, 0, 0]) {
            rec.count("probe:zero-run-in-serialized-key");
        }
    }

    let r = guard(|| -> Result<(), (String, String)> {
        let fail = |site: &str, msg: String| -> Result<(), (String, String)> { Err((site.to_string(), msg)) };
        // 1. bindings
        if let Err(e) = key.verify_bindings() {
            return fail("verify_bindings:secret", format!("generated secret key fails verify_bindings: {e}"));
        }
        if let Err(e) = public.verify_bindings() {
            return fail("verify_bindings:public", format!("public half fails verify_bindings: {e}"));
        }
        // signing subkeys carry an embedded back signature
        for (i, s) in plan["subkeys"].as_array().into_iter().flatten().enumerate() {
            if jstr(s, "type").starts_with("s:") {
                let sk = &key.secret_subkeys[i];
                if !sk.signatures.iter().any(|sig| sig.embedded_signature().is_some()) {
                    return fail("back-signature", format!("signing subkey #{i} has no embedded primary-key binding signature"));
                }
            }
        }
        if public.details.user_attributes.len() != jusize(plan, "attrs") {
            return fail("user-attributes", format!("{} user attributes requested, {} present in the certificate", jusize(plan, "attrs"), public.details.user_attributes.len()));
        }
        // 2. export / import
        for armored in [false, true] {
            let (mut w, out, _l) = SimWriter::new(Sched::from_json(&plan["sink_sched"]), vec![], 2_000_000);
            if armored {
                key.to_armored_writer(&mut w, ArmorOptions::default()).map_err(|e| ("export".to_string(), e.to_string()))?;
            } else {
                key.to_writer(&mut w).map_err(|e| ("export".to_string(), e.to_string()))?;
            }
            let stored = Arc::new(out.lock().unwrap().clone());
            let (input, _rl) = seams::sim_bufread(stored, Sched::from_json(&plan["src_sched"]), jusize(plan, "cap").max(1), vec![]);
            let back = if armored { SignedSecretKey::from_armor_single_buf(input).map(|x| x.0) } else { SignedSecretKey::from_bytes(input) };
            let back = match back {
                Ok(b) => b,
                Err(e) => return fail("import", format!("re-import of the exported key ({}) fails: {e}", if armored { "armored" } else { "binary" })),
            };
            if back != key && std::env::var("VERIF_DEBUG").is_ok() {
                let a = format!("{key:#?}");
                let b = format!("{back:#?}");
                let same_bytes = back.to_bytes().ok() == key.to_bytes().ok();
                eprintln!("DEBUG same_bytes={same_bytes}");
                let al: Vec<&str> = a.lines().collect();
                let bl: Vec<&str> = b.lines().collect();
                for i in 0..al.len().min(bl.len()) {
                    if al[i] != bl[i] {
                        for j in i.saturating_sub(25)..(i + 3).min(al.len()) {
                            eprintln!("DEBUG {} | {}", al[j], bl.get(j).unwrap_or(&""));
                        }
                        break;
                    }
                }
            }
            if back != key {
                return fail("import", format!("re-imported key ({}) is not equal to the generated one", if armored { "armored" } else { "binary" }));
            }
            if back.fingerprint() != key.fingerprint() || back.legacy_key_id() != key.legacy_key_id() {
                return fail("import", "fingerprint / key id changed across export and import".to_string());
            }
            if let Err(e) = back.verify_bindings() {
                return fail("import", format!("re-imported key fails verify_bindings: {e}"));
            }
        }
        // public half export/import
        let pb = public.to_bytes().map_err(|e| ("export".to_string(), e.to_string()))?;
        match SignedPublicKey::from_bytes(&pb[..]) {
            Ok(p2) => {
                if p2 != public || p2.fingerprint() != key.fingerprint() {
                    return fail("import", "public half changes across export and import".to_string());
                }
            }
            Err(e) => return fail("import", format!("public half does not re-import: {e}")),
        }
        // 3. flags and preferences
        let sigs = self_sigs(&public);
        if jusize(plan, "uids") > 0 || jbool(plan, "v6") {
            let want_sign = jbool(plan, "can_sign");
            let found = sigs.iter().any(|s| {
                let f = s.key_flags();
                f.certify() && f.sign() == want_sign && f.authentication() == jbool(plan, "can_auth")
            });
            if !found {
                return fail("flags", format!("no self-signature carries the requested primary key flags (certify, sign={want_sign}, auth={})", jbool(plan, "can_auth")));
            }
            if jbool(plan, "prefs") {
                let ok = sigs.iter().any(|s| {
                    s.preferred_symmetric_algs() == [SymmetricKeyAlgorithm::AES256, SymmetricKeyAlgorithm::AES128]
                        && s.preferred_hash_algs() == [HashAlgorithm::Sha512, HashAlgorithm::Sha256]
                        && s.preferred_compression_algs() == [CompressionAlgorithm::ZLIB, CompressionAlgorithm::ZIP]
                });
                if !ok {
                    return fail("preferences", "requested algorithm preferences are not found in any self-signature".to_string());
                }
            }
            let feat = sigs.iter().any(|s| s.features().map(|f| f.seipd_v1() && f.seipd_v2() == jbool(plan, "seipd2")).unwrap_or(false));
            if !feat {
                return fail("features", "requested features subpacket not found".to_string());
            }
        }
        for (i, s) in plan["subkeys"].as_array().into_iter().flatten().enumerate() {
            let t = jstr(s, "type");
            let sub = &public.public_subkeys[i];
            let f = sub.signatures.iter().map(|s| s.key_flags()).next();
            let Some(f) = f else { return fail("flags", format!("subkey #{i} has no binding signature")) };
            if t.starts_with("s:") {
                if !f.sign() || f.encrypt_comms() || f.encrypt_storage() {
                    return fail("flags", format!("signing subkey #{i} has flags sign={} enc={}", f.sign(), f.encrypt_comms()));
                }
            } else {
                let (wc, ws) = match jstr(s, "caps") {
                    "comm" => (true, false),
                    "storage" => (false, true),
                    _ => (true, true),
                };
                if f.encrypt_comms() != wc || f.encrypt_storage() != ws || f.sign() {
                    return fail("flags", format!("encryption subkey #{i}: flags comm={} storage={} sign={}, requested comm={wc} storage={ws}", f.encrypt_comms(), f.encrypt_storage(), f.sign()));
                }
            }
        }
        // 4. the keys work
        let msg = b"key usability probe \r\n with some text";
        let mut rng2 = SimRng::new(ju64(plan, "rng_key"), "use", false);
        let ppw = Password::from(if jbool(plan, "locked") { KEY_PW } else { "" });
        if jbool(plan, "can_sign") {
            let hash = match jstr(plan, "primary") {
                "ed448" | "p521" => HashAlgorithm::Sha512,
                "p384" => HashAlgorithm::Sha384,
                _ => HashAlgorithm::Sha256,
            };
            let sig = DetachedSignature::sign_binary_data(&mut rng2, &key.primary_key, &ppw, hash, &msg[..]).map_err(|e| ("sign:primary".to_string(), format!("primary key cannot sign: {e}")))?;
            if let Err(e) = sig.verify(&public, msg) {
                return fail("verify:primary", format!("signature by the generated primary does not verify under its public half: {e}"));
            }
            if sig.verify(&crate::keys::get("outsider-v4").public, msg).is_ok() {
                return fail("verify:primary", "signature verifies under an unrelated key".to_string());
            }
            // RSA signature values are a deterministic function of the message: many messages, so that
            // values with leading zero octets (1 in 256) occur for this key too
            if jstr(plan, "primary") == "rsa" && !jbool(plan, "locked") {
                for j in 0..400u32 {
                    let m = format!("message number {j} for the generated key");
                    let sig = DetachedSignature::sign_binary_data(&mut rng2, &key.primary_key, &ppw, hash, m.as_bytes()).map_err(|e| ("sign:primary".to_string(), format!("primary key cannot sign: {e}")))?;
                    if let Err(e) = sig.verify(&public, m.as_bytes()) {
                        return fail("verify:primary", format!("signature #{j} by the generated RSA primary does not verify under its public half: {e}"));
                    }
                }
            }
        }
        for (i, s) in plan["subkeys"].as_array().into_iter().flatten().enumerate() {
            let t = jstr(s, "type");
            let spw = Password::from(subkey_pw(s));
            if t.starts_with("s:") {
                let hash = match t {
                    "s:ed448" => HashAlgorithm::Sha512,
                    _ => HashAlgorithm::Sha256,
                };
                let sig = DetachedSignature::sign_text_data(&mut rng2, &key.secret_subkeys[i].key, &spw, hash, &msg[..]).map_err(|e| (format!("sign:subkey:{t}"), format!("signing subkey #{i} ({t}) cannot sign: {e}")))?;
                if let Err(e) = sig.verify(&public.public_subkeys[i], msg) {
                    return fail(&format!("verify:subkey:{t}"), format!("signature by signing subkey #{i} ({t}) does not verify: {e}"));
                }
            } else {
                for v2 in [false, true] {
                    let enc = if v2 {
                        let mut b = MessageBuilder::from_bytes("", msg.to_vec()).seipd_v2(&mut rng2, SymmetricKeyAlgorithm::AES128, AeadAlgorithm::Ocb, Default::default());
                        b.encrypt_to_key(&mut rng2, &public.public_subkeys[i]).map_err(|e| (format!("encrypt:{t}"), e.to_string()))?;
                        b.to_vec(&mut rng2)
                    } else {
                        let mut b = MessageBuilder::from_bytes("", msg.to_vec()).seipd_v1(&mut rng2, SymmetricKeyAlgorithm::AES256);
                        b.encrypt_to_key(&mut rng2, &public.public_subkeys[i]).map_err(|e| (format!("encrypt:{t}"), e.to_string()))?;
                        b.to_vec(&mut rng2)
                    }
                    .map_err(|e| (format!("encrypt:{t}"), e.to_string()))?;
                    let m = Message::from_bytes(&enc[..]).map_err(|e| (format!("decrypt:{t}"), e.to_string()))?;
                    // present both candidate passwords; the key decides which applies
                    let mut dec = m
                        .decrypt_with_keys(vec![&spw, &ppw], vec![&key])
                        .map_err(|e| (format!("decrypt:{t}"), format!("subkey #{i} ({t}) cannot decrypt a SEIPDv{} message encrypted to it: {e}", if v2 { 2 } else { 1 })))?;
                    let data = dec.as_data_vec().map_err(|e| (format!("decrypt:{t}"), e.to_string()))?;
                    if data != msg {
                        return fail(&format!("decrypt:{t}"), "decrypted plaintext differs".to_string());
                    }
                }
            }
        }
        Ok(())
    });
    match r {
        Err(p) => rec.violation("panic", &norm_loc(&p.loc), format!("using a generated key panicked ({desc}): {}", p.msg), plan.clone()),
        Ok(Err((site, msg))) => rec.violation("generated-key-defect", &site, format!("{msg} ({desc}, rng_key {})", ju64(plan, "rng_key")), plan.clone()),
        Ok(Ok(())) => {}
    }
}
