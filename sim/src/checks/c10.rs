//! C10 — ASCII armor round trip, checksum correctness and tolerant reading.


use std::sync::Arc;

use pgp::armor::{self, BlockType, Dearmor, DearmorOptions, PKCS1Type};
use serde_json::{json, Value};

use crate::{
    checks::c09b::RawBytes,
    model::armor as marmor,
    runner::{guard, norm_loc, Check, Family, GenCtx, Rec, Tier},
    seams::{self, Consumer, Sched, SimWriter},
    util::{jbool, jstr, jusize, payload_from_json, Fnv, Planner},
};

pub fn check() -> Check {
    Check {
        property: "C10",
        level: "exploration",
        rule: "armor::write of byte strings of every length 0..1100 (quick; 0..4096 thorough) plus boundary lengths (multiples of 3 and 48 +-1) and samples up to 1 MiB, x block type x header map x checksum on/off x sink schedule; the emitted text is judged by an independent strict armor checker (<=64-column canonical base64, CRC-24 recomputed, header lines), then dearmored through a SimBufRead under a read schedule/capacity/consumer in each tolerated transport variant (identity, CRLF, whitespace separator line, leading text, trailing newlines, missing final newline, empty lines in the body) with CRC checking off and on (correct, wrong and absent CRC). Non-trivial: non-empty data or headers; distinct = distinct (length, type, header shape, variant, schedule log) hash.",
        families: vec![
            Family { name: "armor_roundtrip", gen: gen_roundtrip, run: run_roundtrip },
            Family { name: "armor_objects", gen: gen_objects, run: run_objects },
        ],
        assumptions: vec![
            "only transformations that RFC 9580 6.2 and the current reader both permit are treated as benign; blanks inside base64 lines are not",
            "header values contain no line breaks (the writer does not escape them and the format cannot carry them)",
        ],
        real: vec!["pgp::armor::write / write_header / write_footer / Base64Encoder / LineWriter", "pgp::armor::Dearmor / Base64Decoder / Base64Reader", "to_armored_* / from_armor_* of keys and signatures"],
        stubs: vec!["SimWriter sink", "SimReader source + BufReader capacity", "independent armor checker (base64 crate, own CRC-24)"],
    }
}

const TYPES: [&str; 13] = ["pubkey", "privkey", "message", "multipart", "multipart0", "signature", "file", "pkcs1rsa", "pkcs1dsa", "pkcs1ec_priv", "pkcs8pub", "sshpriv", "sshpub"];

fn block_type(s: &str) -> BlockType {
    match s {
        "pubkey" => BlockType::PublicKey,
        "privkey" => BlockType::PrivateKey,
        "multipart" => BlockType::MultiPartMessage(3, 14),
        "multipart0" => BlockType::MultiPartMessage(14, 0),
        "signature" => BlockType::Signature,
        "file" => BlockType::File,
        "pkcs1rsa" => BlockType::PublicKeyPKCS1(PKCS1Type::RSA),
        "pkcs1dsa" => BlockType::PublicKeyPKCS1(PKCS1Type::DSA),
        "pkcs1ec_priv" => BlockType::PrivateKeyPKCS1(PKCS1Type::EC),
        "pkcs8pub" => BlockType::PublicKeyPKCS8,
        "sshpriv" => BlockType::PrivateKeyOpenssh,
        "sshpub" => BlockType::PublicKeyOpenssh,
        _ => BlockType::Message,
    }
}

fn block_name(s: &str) -> &'static str {
    match s {
        "pubkey" => "PGP PUBLIC KEY BLOCK",
        "privkey" => "PGP PRIVATE KEY BLOCK",
        "multipart" => "PGP MESSAGE, PART 3/14",
        "multipart0" => "PGP MESSAGE, PART 14/0",
        "signature" => "PGP SIGNATURE",
        "file" => "PGP ARMORED FILE",
        "pkcs1rsa" => "RSA PUBLIC KEY",
        "pkcs1dsa" => "DSA PUBLIC KEY",
        "pkcs1ec_priv" => "EC PRIVATE KEY",
        "pkcs8pub" => "PUBLIC KEY",
        "sshpriv" => "OPENSSH PRIVATE KEY",
        "sshpub" => "OPENSSH PUBLIC KEY",
        _ => "PGP MESSAGE",
    }
}

const VARIANTS: [&str; 8] = ["identity", "identity", "crlf", "blank_ws", "leading", "trailing_nl", "no_final_nl", "empty_lines_body"];

fn plan_headers(p: &mut Planner) -> Value {
    let keys = ["Comment", "Version", "Hash", "X-1", "a", "Charset", "MessageID"];
    let values = ["", "x", " lead", "trail ", "a: b", "see: this", "x:", ":", "-----", "-----BEGIN PGP MESSAGE-----", "é€ utf8", "=abcd", "tab\there"];
    let n = match p.below(6) {
        0..=2 => 0,
        3 => 1,
        4 => 2,
        _ => 3,
    };
    let mut out = Vec::new();
    for _ in 0..n {
        let k = *p.pick(&keys);
        let v = if p.chance(1, 12) { "long ".repeat(40) } else { p.pick(&values).to_string() };
        out.push(json!([k, v]));
    }
    Value::Array(out)
}

fn gen_roundtrip(ctx: &GenCtx) -> Vec<Value> {
    let mut plans = Vec::new();
    let sweep_to = if ctx.tier == Tier::Thorough { 4096 } else { 1100 };
    let mut idx = 0u64;
    let push = |len: usize, plans: &mut Vec<Value>, idx: &mut u64| {
        let mut p = Planner::new(ctx.seed, "c10.roundtrip", *idx);
        *idx += 1;
        let crc_mode = *p.pick(&["off", "off", "on_correct", "on_wrong", "on_correct", "on_init"]);
        plans.push(json!({"payload": {"gen":"random","len": len, "key": p.u64()}, "typ": *p.pick(&TYPES), "headers": plan_headers(&mut p),
            "checksum": p.chance(3,4), "sink_sched": p.sched().to_json(), "read_sched": p.sched().to_json(),
            "cap": *p.pick(&[1usize,2,3,4,5,8,64,512,8192,8192]), "consumer": p.consumer(false).to_json(),
            "variant": *p.pick(&VARIANTS), "crc_mode": crc_mode}));
    };
    for len in 0..=(if ctx.first_round() { sweep_to } else { 0 }) {
        push(len, &mut plans, &mut idx);
    }
    if ctx.tier == Tier::Quick && ctx.first_round() {
        for len in (1100..=4096).filter(|l| l % 48 <= 1 || l % 48 == 47) {
            push(len, &mut plans, &mut idx);
        }
    }
    let extra = ctx.n(150_000, 3_000_000);
    for i in 0..extra {
        let mut p = Planner::new(ctx.seed, "c10.len", i as u64);
        let len = match p.below(40) {
            0 => p.range(100_000, 1 << 20),
            1..=4 => p.range(4096, 70_000),
            _ => p.range(0, 4096),
        };
        push(len, &mut plans, &mut idx);
    }
    plans
}

fn headers_of(plan: &Value) -> armor::Headers {
    let mut m = armor::Headers::new();
    if let Some(a) = plan["headers"].as_array() {
        for kv in a {
            m.entry(kv[0].as_str().unwrap_or("").to_string()).or_insert_with(Vec::new).push(kv[1].as_str().unwrap_or("").to_string());
        }
    }
    m
}

fn apply_variant(text: &str, variant: &str) -> String {
    match variant {
        "crlf" => text.replace('\n', "\r\n"),
        "blank_ws" => {
            // the first empty line is the header/body separator
            match text.find("\n\n") {
                Some(i) => format!("{}\n \t \n{}", &text[..i], &text[i + 2..]),
                None => text.to_string(),
            }
        }
        "leading" => format!("From: someone\nSubject: leading text, not armor\n\n{text}"),
        "trailing_nl" => format!("{text}\n\n"),
        "no_final_nl" => text.strip_suffix('\n').unwrap_or(text).to_string(),
        "empty_lines_body" => {
            let Some(sep) = text.find("\n\n") else { return text.to_string() };
            let (head, body) = text.split_at(sep + 2);
            let mut out = String::from(head);
            let mut first = true;
            for line in body.split_inclusive('\n') {
                if !first && line.len() == 65 {
                    out.push('\n');
                }
                first = false;
                out.push_str(line);
            }
            out
        }
        _ => text.to_string(),
    }
}

fn run_roundtrip(plan: &Value, rec: &mut Rec) {
    let payload = payload_from_json(&plan["payload"]);
    let typ_s = jstr(plan, "typ");
    let typ = block_type(typ_s);
    let headers = headers_of(plan);
    let checksum = jbool(plan, "checksum");
    let variant = jstr(plan, "variant");
    let crc_mode = jstr(plan, "crc_mode");
    let sink_sched = Sched::from_json(&plan["sink_sched"]);

    // ---- write
    let (mut w, out, wlog) = SimWriter::new(sink_sched, vec![], 8 * payload.len() as u64 + 10_000);
    let r = guard(|| armor::write(&RawBytes(payload.clone()), typ, &mut w, if headers.is_empty() { None } else { Some(&headers) }, checksum).map_err(|e| e.to_string()));
    let wlog = seams::snap(&wlog);
    rec.seam_calls += wlog.calls;
    let mut h = Fnv::default();
    h.u64(payload.len() as u64);
    h.str(typ_s);
    h.str(&plan["headers"].to_string());
    h.str(variant);
    h.str(crc_mode);
    h.u64(wlog.hash.0);
    match r {
        Err(p) => {
            rec.eval(h.0, true);
            rec.violation("panic", &norm_loc(&p.loc), format!("armor::write panicked: {}", p.msg), plan.clone());
            return;
        }
        Ok(Err(e)) => {
            rec.eval(h.0, true);
            rec.violation("write-failed", "armor::write", format!("armor::write failed without a fault: {e}"), plan.clone());
            return;
        }
        Ok(Ok(())) => {}
    }
    let text_bytes = out.lock().unwrap().clone();
    let Ok(text) = String::from_utf8(text_bytes) else {
        rec.eval(h.0, true);
        rec.violation("writer-illegal", "armor::write", "emitted armor is not UTF-8".into(), plan.clone());
        return;
    };

    // ---- independent strict checker on what was written
    let header_values_ok = plan["headers"].as_array().map(|a| a.iter().all(|kv| !kv[1].as_str().unwrap_or("").contains('\n'))).unwrap_or(true);
    match marmor::parse_strict(&text) {
        Err(e) => {
            rec.eval(h.0, true);
            rec.violation("writer-illegal", "armor::write", format!("emitted armor violates the format: {e}"), plan.clone());
            return;
        }
        Ok(a) => {
            let mut want_headers: Vec<(String, String)> = Vec::new();
            for (k, vs) in &headers {
                for v in vs {
                    want_headers.push((k.clone(), v.clone()));
                }
            }
            let mut problem = None;
            if a.block != block_name(typ_s) {
                problem = Some(format!("block name {:?}, expected {:?}", a.block, block_name(typ_s)));
            } else if a.data != payload {
                problem = Some(format!("base64 body decodes to {} bytes, data has {}", a.data.len(), payload.len()));
            } else if checksum && a.crc != Some(marmor::crc24(&payload)) {
                problem = Some(format!("CRC line {:?} but CRC-24 of the data is {:06x}", a.crc.map(|c| format!("{c:06x}")), marmor::crc24(&payload)));
            } else if !checksum && a.crc.is_some() {
                problem = Some("CRC line emitted though the checksum was disabled".into());
            } else if header_values_ok && a.headers != want_headers {
                problem = Some(format!("header lines {:?}, expected {:?}", a.headers, want_headers));
            }
            if let Some(pb) = problem {
                rec.eval(h.0, true);
                rec.violation("writer-wrong", "armor::write", pb, plan.clone());
                return;
            }
            if a.max_line == 64 {
                rec.count("probe:full-64-column-line");
            }
            if payload.len() % 3 != 0 {
                rec.count("probe:base64-padding");
            }
            if !payload.is_empty() && payload.len() % 48 == 0 {
                rec.count("probe:last-line-exactly-full");
            }
        }
    }

    // ---- transport variant, CRC manipulation
    let mut transported = apply_variant(&text, variant);
    let mut crc_state = if checksum { "correct" } else { "absent" };
    if crc_mode == "on_wrong" && checksum {
        // replace the CRC line by the CRC of different data
        let good = format!("={}", b64_crc(marmor::crc24(&payload)));
        let bad = format!("={}", b64_crc(marmor::crc24(&payload) ^ 0x1));
        if transported.contains(&good) {
            transported = transported.replacen(&good, &bad, 1);
            crc_state = "wrong";
        }
    }
    if crc_mode == "on_init" && checksum && !payload.is_empty() && marmor::crc24(&payload) != 0xB704CE {
        // a footer carrying the CRC-24 *init value*: wrong for any non-empty data
        let good = format!("={}", b64_crc(marmor::crc24(&payload)));
        if transported.contains(&good) {
            transported = transported.replacen(&good, "=twTO", 1);
            crc_state = "wrong-init-value";
        }
    }
    let crc_check = crc_mode != "off";
    rec.count(&format!("variant:{variant}"));
    rec.count(&format!("crc:{}:{crc_state}", if crc_check { "check-on" } else { "check-off" }));

    // ---- dearmor under a schedule
    let consumer = Consumer::from_json(&plan["consumer"]);
    let sched = Sched::from_json(&plan["read_sched"]);
    let cap = jusize(plan, "cap").max(1);
    rec.count(&format!("sched:src:{}", sched.label()));
    rec.count(&format!("consumer:{}", consumer.label()));
    let (input, rlog) = seams::sim_bufread(Arc::new(transported.into_bytes()), sched, cap, vec![]);
    let max = payload.len() + 1024;
    let res = guard(|| {
        let opt = if crc_check { DearmorOptions::default().enable_crc24_check() } else { DearmorOptions::default() };
        let mut d = Dearmor::with_options(input, opt);
        let (data, end) = seams::drain_read(&mut d, &consumer, max);
        let status = format!("{:?}", d.crc24_status());
        (data, end.map_err(|e| e.to_string()), d.typ, d.headers.clone(), status)
    });
    let rlog = seams::snap(&rlog);
    rec.seam_calls += rlog.calls;
    h.u64(rlog.hash.0);
    h.str(consumer.label());
    rec.eval(h.0, !payload.is_empty() || !headers.is_empty());
    rec.sample(json!({"len": payload.len(), "typ": typ_s, "headers": plan["headers"], "variant": variant, "crc_mode": crc_mode, "read_sched": plan["read_sched"], "cap": cap, "consumer": plan["consumer"]}));

    let site = format!("Dearmor:{variant}");
    let (data, end, rtyp, rheaders, status) = match res {
        Err(p) => {
            rec.violation("panic", &norm_loc(&p.loc), format!("Dearmor panicked: {}", p.msg), plan.clone());
            return;
        }
        Ok(x) => x,
    };
    // CRC semantics (only when checking is enabled)
    if crc_check && crc_state.starts_with("wrong") {
        if end.is_ok() {
            let what = if crc_state == "wrong" { "a wrong CRC-24".to_string() } else { "the CRC-24 init value 0xb704ce as footer CRC".to_string() };
            rec.violation("crc-check-wrong", "Dearmor+enable_crc24_check", format!("armor with {what} was accepted; status {status}"), plan.clone());
        }
        return;
    }
    if let Err(e) = &end {
        if crc_check && e.contains("crc24") {
            let calc = status.split("calculated_crc: ").nth(1).and_then(|s| s.trim_end_matches([' ', '}']).parse::<u32>().ok());
            rec.violation(
                "crc-check-wrong",
                "Dearmor+enable_crc24_check",
                format!("armor with the correct CRC-24 ({:06x}) was rejected: {e}; calculated_crc=0x{:06x}", marmor::crc24(&payload), calc.unwrap_or(0xFFFFFFFF)),
                plan.clone(),
            );
        } else {
            rec.violation("not-accepted", &site, format!("dearmoring rpgp's own armor failed ({variant}): {e}"), plan.clone());
        }
        return;
    }
    if data != payload {
        rec.violation("data-differs", &site, format!("dearmored {} bytes, armored {}", data.len(), payload.len()), plan.clone());
        return;
    }
    if rtyp != Some(typ) {
        rec.violation("type-differs", &site, format!("block type {rtyp:?}, expected {typ:?}"), plan.clone());
        return;
    }
    if header_values_ok && rheaders != headers {
        rec.violation("headers-differ", &site, format!("headers read back {rheaders:?}, written {headers:?}"), plan.clone());
    }
}

fn b64_crc(c: u32) -> String {
    use base64::Engine;
    base64::engine::general_purpose::STANDARD.encode([(c >> 16) as u8, (c >> 8) as u8, c as u8])
}

// ------------------------------------------------------------------ objects

fn gen_objects(ctx: &GenCtx) -> Vec<Value> {
    let n = ctx.n(1500, 40_000);
    (0..n)
        .map(|i| {
            let mut p = Planner::new(ctx.seed, "c10.objects", i as u64);
            let names: Vec<&str> = crate::keys::pool().iter().map(|k| k.name).collect();
            json!({"what": *p.pick(&["secret","public","signature"]), "key": *p.pick(&names), "checksum": p.chance(3,4),
                   "variant": *p.pick(&VARIANTS), "read_sched": p.sched().to_json(), "cap": *p.pick(&[1usize,3,64,8192]), "msg_len": p.range(0, 300), "k": p.u64()})
        })
        .collect()
}

fn run_objects(plan: &Value, rec: &mut Rec) {
    use pgp::composed::{ArmorOptions, Deserializable, DetachedSignature, SignedPublicKey, SignedSecretKey};
    use pgp::ser::Serialize;
    let k = crate::keys::get(jstr(plan, "key"));
    let opts = ArmorOptions { headers: None, include_checksum: jbool(plan, "checksum") };
    let what = jstr(plan, "what");
    let variant = jstr(plan, "variant");
    let r = guard(|| -> Result<(String, Vec<u8>), String> {
        match what {
            "secret" => Ok((k.secret.to_armored_string(opts).map_err(|e| e.to_string())?, k.secret.to_bytes().map_err(|e| e.to_string())?)),
            "public" => Ok((k.public.to_armored_string(opts).map_err(|e| e.to_string())?, k.public.to_bytes().map_err(|e| e.to_string())?)),
            _ => {
                let mut rng = crate::rng::SimRng::new(crate::util::ju64(plan, "k"), "c10sig", false);
                let msg = crate::util::payload_from_json(&json!({"gen":"random","len": jusize(plan,"msg_len"), "key": 3}));
                let s = DetachedSignature::sign_binary_data(&mut rng, &*k.secret, &pgp::types::Password::from(k.password), pgp::crypto::hash::HashAlgorithm::Sha512, &msg[..]).map_err(|e| e.to_string())?;
                Ok((s.to_armored_string(opts).map_err(|e| e.to_string())?, s.to_bytes().map_err(|e| e.to_string())?))
            }
        }
    });
    let (text, bin) = match r {
        Err(p) => {
            rec.eval(0, false);
            rec.violation("panic", &norm_loc(&p.loc), format!("to_armored_string panicked: {}", p.msg), plan.clone());
            return;
        }
        Ok(Err(e)) => {
            rec.count(&format!("skip:objects:{}", &e[..e.len().min(40)]));
            return;
        }
        Ok(Ok(x)) => x,
    };
    let mut h = Fnv::default();
    h.str(what);
    h.str(k.name);
    h.str(variant);
    match marmor::parse_strict(&text) {
        Err(e) => rec.violation("writer-illegal", &format!("to_armored_string:{what}"), format!("emitted armor violates the format: {e}"), plan.clone()),
        Ok(a) => {
            if a.data != bin {
                rec.violation("writer-wrong", &format!("to_armored_string:{what}"), "armored body is not the binary serialization".into(), plan.clone());
            }
            if jbool(plan, "checksum") && a.crc != Some(marmor::crc24(&bin)) {
                rec.violation("writer-wrong", &format!("to_armored_string:{what}"), "CRC line is not the CRC-24 of the data".into(), plan.clone());
            }
        }
    }
    let transported = apply_variant(&text, variant);
    let (input, rlog) = seams::sim_bufread(Arc::new(transported.into_bytes()), Sched::from_json(&plan["read_sched"]), jusize(plan, "cap").max(1), vec![]);
    let back = guard(|| -> Result<Vec<u8>, String> {
        match what {
            "secret" => SignedSecretKey::from_armor_single_buf(input).map_err(|e| e.to_string())?.0.to_bytes().map_err(|e| e.to_string()),
            "public" => SignedPublicKey::from_armor_single_buf(input).map_err(|e| e.to_string())?.0.to_bytes().map_err(|e| e.to_string()),
            _ => DetachedSignature::from_armor_single_buf(input).map_err(|e| e.to_string())?.0.to_bytes().map_err(|e| e.to_string()),
        }
    });
    let rlog = seams::snap(&rlog);
    rec.seam_calls += rlog.calls;
    h.u64(rlog.hash.0);
    rec.eval(h.0, true);
    let site = format!("from_armor_single_buf:{what}:{variant}");
    match back {
        Err(p) => rec.violation("panic", &norm_loc(&p.loc), format!("from_armor panicked: {}", p.msg), plan.clone()),
        Ok(Err(e)) => rec.violation("not-accepted", &site, format!("own armor rejected: {e}"), plan.clone()),
        Ok(Ok(b)) => {
            if b != bin {
                rec.violation("data-differs", &site, "object read back from armor differs".into(), plan.clone());
            }
        }
    }

}
