pub mod c09;

use crate::runner::Check;

pub fn all() -> Vec<Check> {
    vec![c09::check()]
}
