pub mod c01;
pub mod c03;
pub mod c04;
pub mod c07;
pub mod c08;
pub mod c09;
pub mod c10;
pub mod c14;
pub mod c16;
pub mod c17;
pub mod c18;
pub mod c19;
pub mod sigs;
pub mod c09b;

use crate::runner::Check;

pub fn all() -> Vec<Check> {
    vec![c01::check(), sigs::check_c02(), c03::check(), c04::check(), sigs::check_c06(), c07::check(), c08::check(), c09::check(), c10::check(), c14::check(), c16::check(), c17::check(), c18::check(), c19::check()]
}
