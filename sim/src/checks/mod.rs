pub mod c09;
pub mod c09b;

use crate::runner::Check;

pub fn all() -> Vec<Check> {
    vec![c09::check()]
}
