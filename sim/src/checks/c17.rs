//! C17 — packet framing: the reader accepts every legal framing, the writer emits only legal ones.

use std::io::Read;
use std::sync::Arc;

use pgp::{
    composed::{DetachedSignature, PlainSessionKey},
    packet::{Packet, PacketParser, PacketTrait, StreamDecryptor},
    ser::Serialize,
    types::{Password, Seipdv1ReadMode},
};
use serde_json::{json, Value};

use crate::{
    keys,
    model::framer::{self, deframe, frame, LenForm},
    rng::SimRng,
    runner::{guard, norm_loc, Check, Family, GenCtx, Rec, Tier},
    seams::{self, Consumer, Sched, SimReader, SimWriter},
    util::{jbool, jstr, ju64, jusize, payload_from_json, Fnv, Planner},
    workload::{self, Opener, ReadSpec, Source},
};

pub fn check() -> Check {
    Check {
        property: "C17",
        level: "exploration",
        rule: "reader side: packet streams produced by rpgp (certificates, secret keys, detached signatures, literal / compressed / SEIPDv1 / SEIPDv2 messages) are taken apart by an independent deframer and every packet is re-framed by an independent framer under a seeded choice of legal framings (new/old header, 1/2/5-octet and non-minimal lengths, indeterminate for the last packet, partial-body sequences with first chunk 2^9..2^16, later chunks 2^0..2^16, many 1-byte chunks, empty or non-empty final part), also for tags 0..63 with opaque bodies, then parsed through a SimBufRead by PacketParser / Message::from_bytes / Signed*Key::from_bytes; oracle: same outcome as for the canonical framing (bodies, payload, verdicts). Illegal framings (partial length on a non-data tag, first chunk < 512, truncation inside a fixed body / inside a partial chunk / exactly at a chunk boundary) must end in Err. Writer side: every stream written by the builder in a fault-free run is deframed strictly at every layer the harness can open (outer, inside compression via flate2/bzip2 directly, inside encryption via the raw stream decryptor). Non-trivial: framing differs from the canonical one; distinct = distinct (artifact, framing recipe, schedule log) hash.",
        families: vec![
            Family { name: "reframe", gen: gen_reframe, run: run_reframe },
            Family { name: "illegal", gen: gen_illegal, run: run_illegal },
            Family { name: "written", gen: gen_written, run: run_written },
        ],
        assumptions: vec![
            "values are compared on (tag, re-serialized body) and, for messages, on the drained payload and verdicts; the PacketHeader a parsed packet remembers records the framing by design and is excluded",
            "truncation of an indeterminate-length packet is undetectable by construction and not demanded",
        ],
        real: vec!["PacketHeader/PacketLength parsing", "PacketBodyReader / LimitedReader", "PacketParser", "Message parser and readers", "MessageBuilder writers (partial generators, encrypt_write)"],
        stubs: vec!["independent framer/deframer (RFC 9580 4.2)", "flate2 / bzip2 called directly to open compressed containers", "SimReader/SimWriter"],
    }
}

// ------------------------------------------------------------------ helpers

pub fn lenform_from_json(v: &Value) -> LenForm {
    match jstr(v, "k") {
        "new2" => LenForm::New2,
        "new5" => LenForm::New5,
        "old1" => LenForm::Old1,
        "old2" => LenForm::Old2,
        "old4" => LenForm::Old4,
        "oldi" => LenForm::OldIndeterminate,
        "partial" => {
            let exps: Vec<u8> = v["exps"].as_array().map(|a| a.iter().map(|x| x.as_u64().unwrap_or(9) as u8).collect()).unwrap_or_default();
            let last = if jstr(v, "last") == "new5" { LenForm::New5 } else { LenForm::NewMinimal };
            LenForm::Partial(exps, Box::new(last))
        }
        _ => LenForm::NewMinimal,
    }
}

/// body-only serialization of a parsed packet (the remembered header is excluded by design)
fn packet_body(p: &Packet) -> (u8, Vec<u8>) {
    let tag: u8 = p.tag().into();
    let body = match p {
        Packet::CompressedData(x) => x.to_bytes(),
        Packet::PublicKey(x) => x.to_bytes(),
        Packet::PublicSubkey(x) => x.to_bytes(),
        Packet::SecretKey(x) => x.to_bytes(),
        Packet::SecretSubkey(x) => x.to_bytes(),
        Packet::LiteralData(x) => x.to_bytes(),
        Packet::Marker(x) => x.to_bytes(),
        Packet::ModDetectionCode(x) => x.to_bytes(),
        Packet::OnePassSignature(x) => x.to_bytes(),
        Packet::PublicKeyEncryptedSessionKey(x) => x.to_bytes(),
        Packet::Signature(x) => x.to_bytes(),
        Packet::SymEncryptedData(x) => x.to_bytes(),
        Packet::SymEncryptedProtectedData(x) => x.to_bytes(),
        Packet::SymKeyEncryptedSessionKey(x) => x.to_bytes(),
        Packet::Trust(x) => x.to_bytes(),
        Packet::UserAttribute(x) => x.to_bytes(),
        Packet::UserId(x) => x.to_bytes(),
        Packet::Padding(x) => x.to_bytes(),
        Packet::GnupgAeadData(x) => x.to_bytes(),
    };
    (tag, body.unwrap_or_else(|e| format!("<serialize error {e}>").into_bytes()))
}

/// outcome of PacketParser over a stream: per item Ok((tag, body)) or Err
fn parse_packets(stream: Arc<Vec<u8>>, sched: Sched, cap: usize) -> Result<Vec<Result<(u8, Vec<u8>), String>>, crate::runner::PanicInfo> {
    let (input, _log) = seams::sim_bufread(stream, sched, cap, vec![]);
    guard(|| {
        let mut out = Vec::new();
        for (i, item) in PacketParser::new(input).enumerate() {
            if i > 10_000 {
                out.push(Err("runaway parser".to_string()));
                break;
            }
            out.push(item.map(|p| packet_body(&p)).map_err(|e| e.to_string()));
        }
        out
    })
}

fn plan_form(p: &mut Planner, tag: u8, len: usize, is_last: bool) -> Value {
    let data = framer::is_data_tag(tag);
    let mut options: Vec<Value> = vec![json!({"k":"new"}), json!({"k":"new5"})];
    if (192..8384).contains(&len) {
        options.push(json!({"k":"new2"}));
    }
    if tag < 16 {
        if len < 256 {
            options.push(json!({"k":"old1"}));
        }
        if len < 65536 {
            options.push(json!({"k":"old2"}));
        }
        options.push(json!({"k":"old4"}));
        if is_last {
            options.push(json!({"k":"oldi"}));
        }
    }
    if data && len >= 512 && len.is_power_of_two() && len <= (1 << 30) && p.chance(1, 2) {
        // the first chunk carries the whole body, the final fixed part is empty
        return json!({"k":"partial","exps": [len.trailing_zeros() as u8], "last": if p.chance(1,5) { "new5" } else { "new" }});
    }
    if data && len >= 512 && p.chance(2, 3) {
        // partial sequence: first 2^9.., later 2^0..2^16, possibly many tiny chunks, final part fixed
        let mut exps = Vec::new();
        let mut left = len;
        let first = p.range(9, 16).min((left as f64).log2() as usize);
        exps.push(first as u8);
        left -= 1 << first;
        let style = p.below(4);
        let mut guard = 0;
        while left > 0 && guard < 5000 {
            guard += 1;
            let maxe = ((left as f64).log2() as usize).min(16);
            let e = match style {
                0 => 0,
                1 => maxe,
                2 => p.range(0, maxe),
                _ => p.range(0, 3.min(maxe)),
            };
            if p.chance(1, 40) {
                break;
            }
            exps.push(e as u8);
            left -= 1 << e;
        }
        return json!({"k":"partial","exps": exps, "last": if p.chance(1,5) { "new5" } else { "new" }});
    }
    p.pick(&options).clone()
}

/// artifact bytes (canonical framing, produced by rpgp) for a plan
fn artifact(plan: &Value) -> Option<(Vec<u8>, Option<PlainSessionKey>, Vec<u8>)> {
    let what = jstr(plan, "artifact");
    match what {
        "pubkey" => keys::get(jstr(plan, "key")).public.to_bytes().ok().map(|b| (b, None, vec![])),
        "seckey" => keys::get(jstr(plan, "key")).secret.to_bytes().ok().map(|b| (b, None, vec![])),
        "sig" => {
            let k = keys::get(jstr(plan, "key"));
            let mut rng = SimRng::new(3, "c17sig", false);
            DetachedSignature::sign_binary_data(&mut rng, &*k.secret, &Password::from(k.password), pgp::crypto::hash::HashAlgorithm::Sha512, &b"framing"[..])
                .ok()
                .and_then(|s| s.to_bytes().ok())
                .map(|b| (b, None, vec![]))
        }
        "opaque" => {
            let body = payload_from_json(&plan["payload"]);
            let mut s = frame(jusize(plan, "tag") as u8, &body, &LenForm::NewMinimal)?;
            // followed by packets every parser knows, so that a mis-split of the opaque body shows
            if jbool(plan, "followed") {
                s.extend_from_slice(&frame(13, b"genuine <alice@example.org>", &LenForm::NewMinimal)?);
                s.extend_from_slice(&frame(10, b"PGP", &LenForm::NewMinimal)?);
            }
            Some((s, None, vec![]))
        }
        _ => {
            let cfg = &plan["cfg"];
            let payload = payload_from_json(&plan["payload"]);
            let (built, info) = workload::build_reference(cfg, &payload, ju64(cfg, "rng_key"), false);
            built.ok().map(|b| (b, workload::session_key(&info), payload))
        }
    }
}

fn reframe(stream: &[u8], recipe: &Value, p_fallback: bool) -> Option<(Vec<u8>, usize)> {
    let pkts = deframe(stream).ok()?;
    let mut out = Vec::new();
    let mut changed = 0;
    for (i, pk) in pkts.iter().enumerate() {
        let form = recipe.get(i).map(lenform_from_json).unwrap_or(LenForm::NewMinimal);
        match frame(pk.tag, &pk.body, &form) {
            Some(f) => {
                if f != stream[pk.start..pk.end] {
                    changed += 1;
                }
                out.extend_from_slice(&f)
            }
            None => {
                if !p_fallback {
                    return None;
                }
                out.extend_from_slice(&frame(pk.tag, &pk.body, &LenForm::NewMinimal)?)
            }
        }
    }
    Some((out, changed))
}

// ------------------------------------------------------------------ reframe (legal framings)

fn msg_cfg(p: &mut Planner) -> Value {
    let enc = match p.below(4) {
        0 | 1 => json!({"k":"none"}),
        2 => json!({"k":"v1","sym":"aes128"}),
        _ => json!({"k":"v2","sym":"aes128","aead": *p.pick(&workload::AEADS), "chunk": p.range(0, 4)}),
    };
    let signers = if p.chance(1, 3) { json!([{"key":"ed25519-v4","hash":"sha256"}]) } else { json!([]) };
    json!({"source": *p.pick(&["bytes","reader"]), "file_name":"f", "data_mode":"binary", "partial": 512u64 << p.below(3),
           "compression": *p.pick(&["none","none","zip","bzip2"]), "signers": signers, "enc": enc, "recipients": [], "passwords": [],
           "armor": false, "rng_key": p.u64()})
}

fn gen_reframe(ctx: &GenCtx) -> Vec<Value> {
    let n = ctx.n(100_000, 1_500_000);
    let names: Vec<&str> = keys::pool().iter().map(|k| k.name).collect();
    (0..n)
        .map(|i| {
            let mut p = Planner::new(ctx.seed, "c17.reframe", i as u64);
            let mut plan = match p.below(10) {
                0 | 1 => json!({"artifact":"pubkey","key": *p.pick(&names)}),
                2 => json!({"artifact":"seckey","key": *p.pick(&names)}),
                3 => json!({"artifact":"sig","key": *p.pick(&["ed25519-v4","ed25519-v6","p256-v4","rsa-v4"])}),
                4 => {
                    let len = *p.pick(&[0usize, 1, 191, 192, 193, 8383, 8384, 8385, 300, 70000]);
                    // (a body made of well-formed packets makes a mis-split parse "successfully")
                    let gen = if p.chance(1, 2) { "random" } else { "packets" };
                    json!({"artifact":"opaque","tag": if p.chance(1,3) { 60 + p.below(4) } else { p.below(64) }, "followed": p.chance(2,3), "payload": {"gen": gen, "len": len, "key": p.u64()}})
                }
                _ => {
                    let cfg = msg_cfg(&mut p);
                    // (literal body = 7 header octets + payload: some bodies are exact powers of two)
                    let len = if p.chance(1, 6) { p.range(0, 70_000) } else if p.chance(1, 5) { (1usize << p.range(9, 16)) - 7 } else { p.range(0, 6000) };
                    json!({"artifact":"msg","cfg": cfg, "payload": {"gen":"lowent","len": len, "key": p.u64()}})
                }
            };
            // the recipe needs the packet list of the artifact
            let recipe: Vec<Value> = match artifact(&plan).and_then(|(b, _, _)| deframe(&b).ok()) {
                Some(pk) => {
                    let n = pk.len();
                    pk.iter().enumerate().map(|(j, q)| plan_form(&mut p, q.tag, q.body.len(), j + 1 == n)).collect()
                }
                None => vec![],
            };
            plan["recipe"] = Value::Array(recipe);
            plan["src_sched"] = p.sched().to_json();
            plan["cap"] = json!(*p.pick(&[1usize, 2, 5, 64, 512, 8192, 8192]));
            plan["consumer"] = p.consumer(false).to_json();
            plan
        })
        .collect()
}

fn read_msg(stream: Arc<Vec<u8>>, sk: &Option<PlainSessionKey>, verifiers: &[&'static str], sched: Sched, cap: usize, consumer: &Consumer, max: usize) -> Result<workload::ReadOutcome, crate::runner::PanicInfo> {
    let (input, _l) = seams::sim_bufread(stream, sched, cap, vec![]);
    let opener = match sk {
        Some(k) => Opener::SessionKey(k.clone()),
        None => Opener::None,
    };
    let spec = ReadSpec { armor: false, opener, consumer, verifiers: verifiers.to_vec(), max, streaming_v1: false, v1_limit: None, opts: 0 };
    guard(|| workload::read_message(input, &spec))
}

/// read-then-write: packets parsed from a legal framing and written again with their headers
/// (`to_writer_with_header`) form a legal stream of the same packets (independent deframer)
fn write_back(reframed: &[u8], site: &str, plan: &Value, rec: &mut Rec) {
    use pgp::ser::Serialize;
    let input = reframed.to_vec();
    let r = guard(move || {
        let mut pkts = Vec::new();
        for item in PacketParser::new(std::io::Cursor::new(input)).take(10_000) {
            match item {
                Ok(p) => pkts.push(p),
                Err(_) => return None,
            }
        }
        let mut out = Vec::new();
        let mut each = Vec::new();
        for p in &pkts {
            let before = out.len();
            if p.to_writer(&mut out).is_err() {
                return None;
            }
            each.push((packet_body(p), out.len() - before));
        }
        Some((out, each))
    });
    let (out, each) = match r {
        Err(p) => {
            rec.violation("panic", &norm_loc(&p.loc), format!("parse + write-back of a legally framed stream panicked: {}", p.msg), plan.clone());
            return;
        }
        Ok(None) => {
            rec.count("write-back:skipped-unparsed");
            return;
        }
        Ok(Some(x)) => x,
    };
    rec.count("write-back:checked");
    let fail = |rec: &mut Rec, d: String| rec.violation("written-stream-illegal", &format!("{site} [write-back]"), d, plan.clone());
    match deframe(&out) {
        Err(e) => fail(rec, format!("packets parsed from a legal framing and written back do not form a legal stream: {e}")),
        Ok(pk) => {
            if pk.len() != each.len() {
                return fail(rec, format!("{} packets written back, the stream splits into {}", each.len(), pk.len()));
            }
            for (i, (q, ((tag, body), written))) in pk.iter().zip(each.iter()).enumerate() {
                if q.tag != *tag || q.body != *body || q.end - q.start != *written {
                    return fail(
                        rec,
                        format!("written-back packet #{i}: tag {} body {} octets in {} octets written; the stream has tag {} body {} octets in {} octets", tag, body.len(), written, q.tag, q.body.len(), q.end - q.start),
                    );
                }
            }
        }
    }
}

fn run_reframe(plan: &Value, rec: &mut Rec) {
    let Some((canonical, sk, payload)) = artifact(plan) else {
        rec.count("skip:artifact");
        return;
    };
    let Some((reframed, changed)) = reframe(&canonical, &plan["recipe"], true) else {
        rec.count("skip:reframe");
        return;
    };
    let what = jstr(plan, "artifact");
    let sched = Sched::from_json(&plan["src_sched"]);
    let cap = jusize(plan, "cap").max(1);
    let consumer = Consumer::from_json(&plan["consumer"]);
    let mut h = Fnv::default();
    h.bytes(&canonical[..canonical.len().min(64)]);
    h.str(&plan["recipe"].to_string());
    h.str(&plan["src_sched"].to_string());
    h.u64(cap as u64);
    rec.eval(h.0, changed > 0);
    rec.count(&format!("artifact:{what}"));
    for f in plan["recipe"].as_array().into_iter().flatten() {
        rec.count(&format!("framing:{}", jstr(f, "k")));
        if jstr(f, "k") == "partial" {
            let e = f["exps"].as_array().map(|a| a.len()).unwrap_or(0);
            if e > 100 {
                rec.count("probe:more-than-100-partial-chunks");
            }
        }
    }
    rec.sample(json!({"artifact": what, "recipe": plan["recipe"], "canonical_len": canonical.len(), "reframed_len": reframed.len(), "src_sched": plan["src_sched"], "cap": cap}));
    // the reframed stream must itself be legal by the independent deframer (sanity of the stub)
    if let Err(e) = deframe(&reframed) {
        rec.count(&format!("skip:stub-produced-illegal:{}", &e[..e.len().min(30)]));
        return;
    }
    let site = format!("reframe:{what}");
    write_back(&reframed, &site, plan, rec);
    if what == "msg" {
        let verifiers = workload::verifier_names(&plan["cfg"]);
        let max = payload.len() + 1024;
        let a = read_msg(Arc::new(canonical), &sk, &verifiers, Sched::Full, 8192, &Consumer::ReadToEnd, max);
        let b = read_msg(Arc::new(reframed), &sk, &verifiers, sched, cap, &consumer, max);
        match (a, b) {
            (_, Err(p)) => rec.violation("panic", &norm_loc(&p.loc), format!("reader panicked on a legally re-framed message: {}", p.msg), plan.clone()),
            (Err(_), _) => rec.count("skip:canonical-panicked"),
            (Ok(a), Ok(b)) => {
                if a.end.is_err() {
                    rec.count("skip:canonical-rejected");
                    return;
                }
                if let Err(e) = &b.end {
                    rec.violation("legal-framing-rejected", &site, format!("canonical framing reads fine; the re-framed message fails at stage {}: {e}", b.stage), plan.clone());
                } else if b.data != a.data || a.data != payload {
                    rec.violation("mis-split", &site, format!("payload differs under the re-framing: {} vs {} bytes", b.data.len(), a.data.len()), plan.clone());
                } else if b.verdicts != a.verdicts {
                    rec.violation("verdict-differs", &site, format!("{:?} vs {:?}", b.verdicts, a.verdicts), plan.clone());
                }
            }
        }
    } else {
        let reframed_copy = reframed.clone();
        let a = parse_packets(Arc::new(canonical), Sched::Full, 8192);
        let b = parse_packets(Arc::new(reframed), sched, cap);
        match (a, b) {
            (_, Err(p)) => rec.violation("panic", &norm_loc(&p.loc), format!("PacketParser panicked on a legal framing: {}", p.msg), plan.clone()),
            (Err(_), _) => rec.count("skip:canonical-panicked"),
            (Ok(a), Ok(b)) => {
                // independent oracle: as many items as the deframer sees packets, with the same tags
                // (an item may be an error - unsupported packet - but packets are neither lost nor invented)
                if let Ok(pk) = deframe(&reframed_copy) {
                    let tags: Vec<u8> = pk.iter().map(|p| p.tag).collect();
                    let all_known_ok = b.iter().all(|x| x.is_ok());
                    let got: Vec<Option<u8>> = b.iter().map(|x| x.as_ref().ok().map(|t| t.0)).collect();
                    let mismatch = b.len() != tags.len() || got.iter().zip(tags.iter()).any(|(g, t)| g.map(|g| g != *t).unwrap_or(false));
                    // a hard parse error legitimately ends the iteration early; only judge complete runs
                    if mismatch && (all_known_ok || b.len() > tags.len()) {
                        rec.violation(
                            "mis-split",
                            &site,
                            format!("PacketParser yields {} items with tags {:?}; the stream consists of {} packets with tags {:?}", b.len(), got, tags.len(), tags),
                            plan.clone(),
                        );
                        return;
                    }
                }
                let norm = |v: &Vec<Result<(u8, Vec<u8>), String>>| -> Vec<Option<(u8, Vec<u8>)>> { v.iter().map(|x| x.as_ref().ok().cloned()).collect() };
                if norm(&a) != norm(&b) {
                    let first = norm(&a).iter().zip(norm(&b).iter()).position(|(x, y)| x != y).unwrap_or(a.len().min(b.len()));
                    rec.violation(
                        "framing-changes-value",
                        &site,
                        format!("packet #{first} parses differently under the re-framing ({} vs {} items; canonical {:?}, re-framed {:?})", a.len(), b.len(),
                            a.get(first).map(|x| x.as_ref().map(|t| t.0).map_err(|e| e.clone())), b.get(first).map(|x| x.as_ref().map(|t| t.0).map_err(|e| e.clone()))),
                        plan.clone(),
                    );
                }
            }
        }
    }
}

// ------------------------------------------------------------------ illegal framings

fn gen_illegal(ctx: &GenCtx) -> Vec<Value> {
    let n = ctx.n(80_000, 1_200_000);
    (0..n)
        .map(|i| {
            let mut p = Planner::new(ctx.seed, "c17.illegal", i as u64);
            let kind = *p.pick(&["partial_nondata", "partial_skipped_then_msg", "first_small", "trunc_fixed", "trunc_in_chunk", "trunc_at_boundary", "trunc_at_boundary"]);
            let cfg = msg_cfg(&mut p);
            let len = p.range(1300, 5000);
            json!({"kind": kind, "cfg": cfg, "payload": {"gen":"random","len": len, "key": p.u64()}, "key": *p.pick(&["ed25519-v4","p256-v4","ed25519-v6"]),
                   "pick": p.u64(), "first_exp": p.range(0, 8), "src_sched": p.sched().to_json(), "cap": *p.pick(&[1usize, 5, 64, 8192]), "consumer": p.consumer(false).to_json()})
        })
        .collect()
}

fn run_illegal(plan: &Value, rec: &mut Rec) {
    let kind = jstr(plan, "kind");
    let sched = Sched::from_json(&plan["src_sched"]);
    let cap = jusize(plan, "cap").max(1);
    let consumer = Consumer::from_json(&plan["consumer"]);
    let pick = ju64(plan, "pick") as usize;
    let mut h = Fnv::default();
    h.str(kind);
    h.str(&plan.to_string());
    rec.count(&format!("fault:F-framing:{kind}"));
    if kind == "partial_nondata" {
        // a certificate with a long user id: packet #k (non-data tag, body >= 512) is split with a partial length
        let mut cert = keys::get(jstr(plan, "key")).public.to_bytes().unwrap_or_default();
        let tag = *[13u8, 13, 17, 60, 63, 12].get(pick % 6).unwrap();
        let body: Vec<u8> = if tag == 13 { vec![b'u'; 600 + pick % 500] } else { crate::util::payload_from_json(&json!({"gen":"random","len": 600 + pick % 500, "key": pick as u64})) };
        cert.extend_from_slice(&frame(tag, &body, &LenForm::NewMinimal).unwrap());
        let Ok(pk) = deframe(&cert) else { return };
        let k = pk.len() - 1;
        // sanity: canonical framing of the same stream must parse cleanly for tag 13
        let mut out = Vec::new();
        for (i, q) in pk.iter().enumerate() {
            let form = if i == k { LenForm::Partial(vec![9], Box::new(LenForm::NewMinimal)) } else { LenForm::NewMinimal };
            out.extend_from_slice(&frame(q.tag, &q.body, &form).unwrap());
        }
        rec.eval(h.0, true);
        rec.sample(json!({"kind": kind, "packet": k, "tag": pk[k].tag}));
        match parse_packets(Arc::new(out), sched, cap) {
            Err(p) => rec.violation("panic", &norm_loc(&p.loc), format!("PacketParser panicked on a partial length for tag {}: {}", pk[k].tag, p.msg), plan.clone()),
            Ok(items) => {
                if items.iter().all(|x| x.is_ok()) {
                    rec.violation("illegal-framing-accepted", "partial-length-on-non-data-packet", format!("tag {} split with a partial body length was parsed without error ({} items)", pk[k].tag, items.len()), plan.clone());
                }
            }
        }
        return;
    }
    let cfg = &plan["cfg"];
    let payload = payload_from_json(&plan["payload"]);
    let (built, info) = workload::build_reference(cfg, &payload, ju64(cfg, "rng_key"), false);
    let Ok(canonical) = built else {
        rec.count("skip:build");
        return;
    };
    if kind == "partial_skipped_then_msg" {
        // a packet of a type that message readers skip (marker, padding, tags 40..63), framed with a partial
        // body length - not allowed for it - in front of a well-formed message: with a definite length the
        // message behind it is read; with the illegal framing the stream has to be refused
        let tags: Vec<u8> = [10u8, 21].into_iter().chain(40..=63).collect();
        let tag = tags[pick % tags.len()];
        let body: Vec<u8> = if tag == 10 { b"PGP".iter().cycle().take(600).cloned().collect() } else { crate::util::payload_from_json(&json!({"gen":"random","len": 600 + pick % 700, "key": pick as u64})) };
        let exps = if pick % 3 == 0 { vec![9u8, 0, 3] } else { vec![9u8] };
        let Some(front) = frame(tag, &body, &LenForm::Partial(exps, Box::new(LenForm::NewMinimal))) else { return };
        let stream = [&front[..], &canonical[..]].concat();
        let sk = workload::session_key(&info);
        let verifiers = workload::verifier_names(cfg);
        rec.eval(h.0, true);
        rec.sample(json!({"kind": kind, "tag": tag, "front_len": front.len(), "message_len": canonical.len()}));
        match read_msg(Arc::new(stream), &sk, &verifiers, sched, cap, &consumer, payload.len() + 1024) {
            Err(p) => rec.violation("panic", &norm_loc(&p.loc), format!("reader panicked on a partial length for tag {tag}: {}", p.msg), plan.clone()),
            Ok(o) => {
                if o.end.is_ok() {
                    rec.violation(
                        "illegal-framing-accepted",
                        "partial-length-on-non-data-packet",
                        format!("a packet of type {tag} framed with a partial body length in front of a message: the message was read to a clean end ({} payload bytes)", o.data.len()),
                        plan.clone(),
                    );
                }
            }
        }
        return;
    }
    let sk = workload::session_key(&info);
    let verifiers = workload::verifier_names(cfg);
    let Ok(pk) = deframe(&canonical) else {
        rec.count("skip:deframe");
        return;
    };
    // the (outermost) data packet is the last packet of the stream
    let last = pk.last().unwrap();
    let prefix = &canonical[..last.start];
    let mutated: Option<Vec<u8>> = match kind {
        "first_small" => {
            let e = jusize(plan, "first_exp") as u8; // 2^0..2^8 < 512
            frame(last.tag, &last.body, &LenForm::Partial(vec![e], Box::new(LenForm::NewMinimal))).map(|f| [prefix, &f[..]].concat())
        }
        "trunc_fixed" => {
            frame(last.tag, &last.body, &LenForm::NewMinimal).map(|f| {
                let hdr = f.len() - last.body.len();
                let cut = hdr + pick % last.body.len().max(1);
                [prefix, &f[..cut]].concat()
            })
        }
        "trunc_in_chunk" | "trunc_at_boundary" => {
            if last.body.len() < 1100 {
                None
            } else {
                frame(last.tag, &last.body, &LenForm::Partial(vec![9, 9], Box::new(LenForm::NewMinimal))).map(|f| {
                    // layout: hdr(1) len(1) 512 len(1) 512 final-len ...
                    let cut = if kind == "trunc_at_boundary" { *[2 + 512, 2 + 512 + 1 + 512].get(pick % 2).unwrap() } else { 2 + 1 + pick % 511 + if pick % 2 == 0 { 0 } else { 513 } };
                    [prefix, &f[..cut]].concat()
                })
            }
        }
        _ => None,
    };
    let Some(mutated) = mutated else {
        rec.count("skip:not-applicable");
        return;
    };
    rec.eval(h.0, true);
    rec.sample(json!({"kind": kind, "tag": last.tag, "body_len": last.body.len(), "mutated_len": mutated.len()}));
    let r = read_msg(Arc::new(mutated), &sk, &verifiers, sched, cap, &consumer, payload.len() + 1024);
    match r {
        Err(p) => rec.violation("panic", &norm_loc(&p.loc), format!("reader panicked on illegal framing {kind}: {}", p.msg), plan.clone()),
        Ok(o) => {
            if o.end.is_ok() {
                rec.violation(
                    "illegal-framing-accepted",
                    kind,
                    format!("{kind} on tag {}: clean end with {} of {} payload bytes", last.tag, o.data.len(), payload.len()),
                    plan.clone(),
                );
            }
        }
    }
}

// ------------------------------------------------------------------ writer side: sink monitor

fn gen_written(ctx: &GenCtx) -> Vec<Value> {
    let n = ctx.n(100_000, 1_500_000);
    let thorough = ctx.tier == Tier::Thorough;
    let mut plans: Vec<Value> = Vec::new();
    // lengths on both sides of the 1-/2-/5-octet length encodings (191|192, 8383|8384): every payload length
    // that puts the literal packet, the container around it or a final partial part there
    let mut b = 0u64;
    for enc in [json!({"k":"none"}), json!({"k":"v1","sym":"aes128"}), json!({"k":"v2","sym":"aes128","aead":"ocb","chunk":6})].into_iter().filter(|_| ctx.first_round()) {
        for (source, partial) in [("bytes", 512u64), ("reader", 16384), ("reader", 512)] {
            for edge in [192usize, 8384] {
                for d in 0..=70usize {
                    let base = if source == "reader" { partial as usize } else { 0 };
                    let len = (base + edge + 3).saturating_sub(d);
                    let mut p = Planner::new(ctx.seed, "c17.written.edge", b);
                    b += 1;
                    let cfg = json!({"source": source, "file_name": "", "data_mode":"binary", "partial": partial, "compression":"none", "signers": [],
                        "enc": enc, "recipients": [], "passwords": if jstr(&enc,"k") == "none" { json!([]) } else { json!([{"pw":"p","s2k":{"k":"iterated","hash":"sha256","count":0}}]) },
                        "armor": false, "rng_key": p.u64()});
                    plans.push(json!({"cfg": cfg, "payload": {"gen":"random","len": len, "key": p.u64()}, "src_sched": {"k":"full"}, "sink_sched": {"k":"full"}}));
                }
            }
        }
    }
    plans.extend((0..n)
        .map(|i| {
            let mut p = Planner::new(ctx.seed, "c17.written", i as u64);
            let mut cfg = workload::plan_cfg(&mut p, thorough, false);
            cfg["armor"] = json!(false);
            cfg["source"] = json!(*p.pick(&["reader", "reader", "bytes"]));
            let big = p.chance(1, 12);
            let payload = workload::plan_payload(&mut p, &cfg, if big { 70_000 } else { 9_000 });
            json!({"cfg": cfg, "payload": payload, "src_sched": p.sched().to_json(), "sink_sched": p.sched().to_json()})
        }));
    plans
}

/// strict check of what a writer may emit, recursively through the layers that can be opened
fn monitor(stream: &[u8], sk: &Option<PlainSessionKey>, depth: usize, rec: &mut Rec) -> Result<(), String> {
    let pkts = deframe(stream).map_err(|e| format!("layer {depth}: {e}"))?;
    for p in &pkts {
        if p.old_format {
            return Err(format!("layer {depth}: tag {} written with an old-format header", p.tag));
        }
        if p.indeterminate {
            return Err(format!("layer {depth}: indeterminate length written"));
        }
        for c in &p.chunks {
            if !c.1 && (c.0 == 191 || c.0 == 192 || c.0 == 8383 || c.0 == 8384) {
                rec.count(&format!("probe:length-{}-written", c.0));
            }
        }
        if p.chunks.len() > 1 {
            rec.count("probe:partial-body-stream-written");
            if p.chunks.last().map(|c| c.0) == Some(0) {
                rec.count("probe:final-zero-length-part-written");
            }
        }
        match p.tag {
            8 => {
                let alg = *p.body.first().ok_or("empty compressed packet")?;
                let inner = match alg {
                    0 => p.body[1..].to_vec(),
                    1 => {
                        let mut d = flate2::read::DeflateDecoder::new(&p.body[1..]);
                        let mut o = Vec::new();
                        d.read_to_end(&mut o).map_err(|e| format!("layer {depth}: deflate stream does not decompress: {e}"))?;
                        o
                    }
                    2 => {
                        let mut d = flate2::read::ZlibDecoder::new(&p.body[1..]);
                        let mut o = Vec::new();
                        d.read_to_end(&mut o).map_err(|e| format!("layer {depth}: zlib stream does not decompress: {e}"))?;
                        o
                    }
                    3 => {
                        let mut d = bzip2::read::BzDecoder::new(&p.body[1..]);
                        let mut o = Vec::new();
                        d.read_to_end(&mut o).map_err(|e| format!("layer {depth}: bzip2 stream does not decompress: {e}"))?;
                        o
                    }
                    a => return Err(format!("layer {depth}: unknown compression octet {a}")),
                };
                monitor(&inner, sk, depth + 1, rec)?;
            }
            18 => {
                let Some(sk) = sk else { continue };
                let version = *p.body.first().ok_or("empty SEIPD")?;
                let mut plain = Vec::new();
                match (version, sk) {
                    (1, PlainSessionKey::V3_4 { sym_alg, key }) => {
                        let mut d = StreamDecryptor::v1(*sym_alg, Seipdv1ReadMode::default(), key.as_ref(), &p.body[1..]).map_err(|e| e.to_string())?;
                        d.read_to_end(&mut plain).map_err(|e| format!("layer {depth}: SEIPDv1 does not decrypt: {e}"))?;
                    }
                    (2, PlainSessionKey::V6 { key }) => {
                        if p.body.len() < 36 {
                            return Err("short SEIPDv2".into());
                        }
                        let sym = pgp::crypto::sym::SymmetricKeyAlgorithm::from(p.body[1]);
                        let aead = pgp::crypto::aead::AeadAlgorithm::from(p.body[2]);
                        let cs = pgp::crypto::aead::ChunkSize::try_from(p.body[3]).map_err(|_| "bad chunk size octet")?;
                        let mut salt = [0u8; 32];
                        salt.copy_from_slice(&p.body[4..36]);
                        let mut d = StreamDecryptor::v2(sym, aead, cs, &salt, key.as_ref(), &p.body[36..]).map_err(|e| e.to_string())?;
                        d.read_to_end(&mut plain).map_err(|e| format!("layer {depth}: SEIPDv2 does not decrypt: {e}"))?;
                    }
                    _ => continue,
                }
                monitor(&plain, &None, depth + 1, rec)?;
            }
            _ => {}
        }
    }
    Ok(())
}

fn run_written(plan: &Value, rec: &mut Rec) {
    let cfg = &plan["cfg"];
    let payload = Arc::new(payload_from_json(&plan["payload"]));
    let source = if jstr(cfg, "source") == "bytes" { Source::Bytes(payload.to_vec()) } else { Source::Reader(SimReader::new(payload.clone(), Sched::from_json(&plan["src_sched"]), vec![]).0) };
    let (w, out, log) = SimWriter::new(Sched::from_json(&plan["sink_sched"]), vec![], 8 * payload.len() as u64 + 100_000);
    let mut rng = SimRng::new(ju64(cfg, "rng_key"), "builder", jbool(cfg, "bias"));
    let r = guard(|| {
        let (r, info) = workload::build(cfg, source, &mut rng, w);
        (r.map_err(|e| e.to_string()), info)
    });
    let log = seams::snap(&log);
    rec.seam_calls += log.calls;
    let info = match r {
        Err(p) => {
            rec.eval(0, false);
            rec.violation("panic", &norm_loc(&p.loc), format!("builder panicked: {}", p.msg), plan.clone());
            return;
        }
        Ok((Err(_), _)) => {
            rec.count("skip:build-rejected");
            return;
        }
        Ok((Ok(()), i)) => i,
    };
    let stream = out.lock().unwrap().clone();
    let mut h = Fnv::default();
    h.str(&cfg.to_string());
    h.u64(payload.len() as u64);
    h.u64(log.hash.0);
    rec.eval(h.0, !payload.is_empty());
    rec.sample(json!({"cfg": cfg, "payload_len": payload.len(), "written": stream.len()}));
    let sk = workload::session_key(&info);
    let r = guard(|| {
        let mut sub = Rec::default();
        let r = monitor(&stream, &sk, 0, &mut sub);
        (r, sub)
    });
    match r {
        Err(p) => rec.violation("harness-panic", &norm_loc(&p.loc), format!("monitor panicked: {}", p.msg), plan.clone()),
        Ok((r, sub)) => {
            for (k, v) in sub.counters {
                rec.count_n(&k, v);
            }
            if let Err(e) = r {
                rec.violation("writer-illegal-framing", "MessageBuilder", format!("the written stream breaks the framing rules: {e}"), plan.clone());
            }
        }
    }
}
