//! C19 — work and memory are bounded by the input actually supplied.
//! Allocator accounting (thread-local, per run) with the invariant
//! `peak live bytes <= A * bytes delivered so far + C` evaluated at every source seam call.

use std::io::{self, Read, Write};
use std::sync::Arc;

use pgp::{
    composed::{Deserializable, Message, SignedPublicKey, SignedSecretKey},
    packet::PacketParser,
    ser::Serialize,
    types::StringToKey,
};
use serde_json::{json, Value};

use crate::{
    alloc,
    keys,
    model::framer::{deframe, frame, new_len, LenForm},
    rng::SimRng,
    runner::{guard, norm_loc, Check, Family, GenCtx, Rec, Tier},
    seams::{self, Consumer, Sched},
    util::{jbool, jstr, ju64, jusize, Fnv, Planner},
    workload::{self, Opener, ReadSpec, Source},
};

/// the invariant's constants (fixed from measurements on the pinned tree, with margin; never tuned per run)
const A: u64 = 16;
const C_BASE: u64 = 192 * 1024;
/// cumulative allocation: bytes allocated in total <= A_CUM * input + C_CUM (catches quadratic regrowth)
const A_CUM: u64 = 96;
const PER_PACKET_CUM: u64 = 256 * 1024;

fn packets_hint(plan: &Value) -> u64 {
    plan.get("n").and_then(|x| x.as_u64()).unwrap_or(16)
}
const C_CUM: u64 = 2 * 1024 * 1024;

pub fn check() -> Check {
    Check {
        property: "C19",
        level: "exploration",
        rule: "allocator seam: a counting global allocator with thread-local accounts; every run marks a zero point, arms the invariant peak <= 16 * (bytes delivered by the source so far) + 192 KiB (+ the documented stream buffers of the enabled layers) which the source seam evaluates at every call, and checks cumulative allocation <= 96 * input + 2 MiB at the end. Workloads: (a) every packet tag 0..63 with a header announcing 2^16 / 2^24 / 2^31 / 2^32-1 octets over a body of <= 22 octets, then EOF or a 1-byte drip; (b) every offset of the first 300 octets of each packet of real artifacts (certificates, secret keys, signatures, literal / compressed / SEIPDv1 / SEIPDv2 / SKESK / PKESK packets) overwritten by a large 1-, 2- or 4-octet big-endian value (this hits every count / length / size field without having to name it), parsed through PacketParser, Message, key and signature parsers; unterminated armor header lines; (c) 3*10^4 (thorough 10^5) repeated marker / padding / signature / user id packets, judged for linear cumulative allocation by doubling; (d) compressed containers nested 1..200 deep; (e) streaming: building 32 MiB (thorough 256 MiB) messages from a lazy source into a discarding sink, and reading large messages with a fixed consumer buffer, per configuration; default SEIPDv1 is judged against its configured max_message_size; (f) Argon2 (t, p, m) octet triples outside the documented ceiling must be refused with < 1 MiB allocated. Non-trivial: the declared size exceeds the supplied bytes or the stream exceeds every fixed buffer; distinct = (workload, artifact, field position, value) hash.",
        families: vec![
            Family { name: "declared_packet_len", gen: gen_declared, run: run_declared },
            Family { name: "overwritten_fields", gen: gen_fields, run: run_fields },
            Family { name: "repeated", gen: gen_repeated, run: run_repeated },
            Family { name: "nested", gen: gen_nested, run: run_nested },
            Family { name: "stream_build", gen: gen_stream_build, run: run_stream_build },
            Family { name: "stream_read", gen: gen_stream_read, run: run_stream_read },
            Family { name: "s2k", gen: gen_s2k, run: run_s2k },
            Family { name: "armor_lines", gen: gen_armor_lines, run: run_armor_lines },
        ],
        assumptions: vec![
            "wall-clock time is reported but never judged; work is counted in seam calls and bytes allocated",
            "the consumer drains into a fixed buffer and the sink discards, so harness memory never enters the account; artifacts built before the zero point are not counted",
            "allocation *failure* is not injected (it aborts the process); only the amount requested is judged",
        ],
        real: vec!["all parsers (packets, keys, signatures, armor, message structure)", "streaming builder and reader layers", "StringToKey::derive_key"],
        stubs: vec!["counting global allocator (accounting only)", "lazy source / discarding sink", "declared-length editor built on the independent framer"],
    }
}

// ------------------------------------------------------------------ accounted execution

struct Measured<T> {
    out: Result<T, crate::runner::PanicInfo>,
    acct: alloc::Account,
    broken: Option<(u64, u64)>,
}

fn measured_once<T>(a: u64, extra_c: u64, f: &dyn Fn() -> T) -> Measured<T> {
    alloc::mark();
    alloc::arm(a, C_BASE + extra_c);
    let out = guard(f);
    let broken = alloc::disarm();
    let acct = alloc::account();
    Measured { out, acct, broken }
}

/// One-time initialisations inside rpgp's dependencies (lazily built tables etc.) are charged to
/// whichever run happens to trigger them first, which would make the account depend on history.
/// A run that looks over the bound is therefore measured a second time, and only the second
/// measurement - which cannot contain a one-time initialisation any more - is judged.
fn measured<T>(extra_c: u64, f: impl Fn() -> T) -> Measured<T> {
    measured_with(A, extra_c, f)
}

fn measured_with<T>(a: u64, extra_c: u64, f: impl Fn() -> T) -> Measured<T> {
    let m = measured_once(a, extra_c, &f);
    let suspicious = m.broken.is_some() || m.acct.peak > C_BASE + extra_c || m.acct.cumulative > C_CUM;
    if suspicious && m.out.is_ok() {
        return measured_once(a, extra_c, &f);
    }
    m
}

/// judge one accounted run; `input_len` = bytes actually present in the input
fn judge<T>(rec: &mut Rec, plan: &Value, vplan: Value, site: &str, what: &str, input_len: u64, extra_c: u64, m: &Measured<T>) {
    let bound = A * input_len + C_BASE + extra_c;
    match &m.out {
        Err(p) => {
            rec.violation("panic", &norm_loc(&p.loc), format!("{what}: {}", p.msg), vplan);
            return;
        }
        Ok(_) => {}
    }
    if let Some((delivered, peak)) = m.broken {
        rec.violation(
            "memory-not-bounded-by-input",
            site,
            format!("{what}: after {delivered} bytes had been delivered the peak live allocation was {peak} bytes (bound {} = {A} x delivered + {}); largest single allocation {} bytes", A * delivered + C_BASE + extra_c, C_BASE + extra_c, m.acct.biggest),
            vplan,
        );
        return;
    }
    if m.acct.peak > bound {
        rec.violation(
            "memory-not-bounded-by-input",
            site,
            format!("{what}: peak live allocation {} bytes for an input of {input_len} bytes (bound {bound}); largest single allocation {} bytes", m.acct.peak, m.acct.biggest),
            vplan,
        );
        return;
    }
    // every packet costs a constant (three 8 KiB stream buffers per parser that looks at it)
    let cum_bound = A_CUM * input_len + C_CUM + 4 * extra_c + PER_PACKET_CUM * packets_hint(plan);
    if m.acct.cumulative > cum_bound {
        rec.violation("allocation-work-not-linear", site, format!("{what}: {} bytes allocated in total for an input of {input_len} bytes (bound {cum_bound})", m.acct.cumulative), vplan);
    }
    let _ = plan;
}

/// parse `bytes` with every parser that could take them; returns nothing, the account is what matters
fn parse_everything(bytes: &Arc<Vec<u8>>, sched: &Sched, cap: usize) {
    let mk = || seams::sim_bufread(bytes.clone(), sched.clone(), cap, vec![]).0;
    let mut sink = [0u8; 4096];
    for (i, p) in PacketParser::new(mk()).enumerate() {
        if i > 200_000 {
            break;
        }
        drop(p);
    }
    if let Ok(mut m) = Message::from_bytes(mk()) {
        if !m.is_encrypted() {
            if let Ok(mut m2) = Message::from_bytes(mk()).and_then(|m| m.decompress()) {
                while let Ok(n) = m2.read(&mut sink) {
                    if n == 0 {
                        break;
                    }
                }
            }
        }
        while let Ok(n) = m.read(&mut sink) {
            if n == 0 {
                break;
            }
        }
    }
    let _ = SignedPublicKey::from_bytes(mk());
    let _ = SignedSecretKey::from_bytes(mk());
    let _ = pgp::composed::DetachedSignature::from_bytes(mk());
}

// ------------------------------------------------------------------ (a) declared packet lengths

fn gen_declared(_ctx: &GenCtx) -> Vec<Value> {
    let mut plans = Vec::new();
    for tag in 0..64usize {
        for declared in [1u64 << 16, 1 << 24, 1 << 31, (1u64 << 32) - 1] {
            for (form, supply) in [("new5", "eof"), ("new5", "drip"), ("old4", "eof"), ("partial30", "eof")] {
                if form == "old4" && tag >= 16 {
                    continue;
                }
                plans.push(json!({"tag": tag, "declared": declared, "form": form, "supply": supply, "body": (tag * 7 + 3) % 23}));
            }
        }
    }
    plans
}

fn run_declared(plan: &Value, rec: &mut Rec) {
    let tag = jusize(plan, "tag") as u8;
    let declared = ju64(plan, "declared");
    let body: Vec<u8> = (0..jusize(plan, "body")).map(|i| (i * 37 + tag as usize) as u8).collect();
    let mut s = Vec::new();
    match jstr(plan, "form") {
        "old4" => {
            s.push(0x80 | (tag << 2) | 2);
            s.extend_from_slice(&(declared as u32).to_be_bytes());
        }
        "partial30" => {
            s.push(0xC0 | tag);
            s.push(224 + 30); // partial chunk of 2^30
        }
        _ => {
            s.push(0xC0 | tag);
            s.push(255);
            s.extend_from_slice(&(declared as u32).to_be_bytes());
        }
    }
    s.extend_from_slice(&body);
    let len = s.len() as u64;
    let bytes = Arc::new(s);
    let sched = if jstr(plan, "supply") == "drip" { Sched::Fixed(1) } else { Sched::Full };
    let mut h = Fnv::default();
    h.str(&plan.to_string());
    rec.eval(h.0, true);
    rec.count(&format!("fault:F-declare:{}:{}", jstr(plan, "form"), jstr(plan, "supply")));
    rec.sample(json!({"tag": tag, "declared": declared, "supplied": len, "form": jstr(plan, "form"), "supply": jstr(plan, "supply")}));
    let m = measured(0, || parse_everything(&bytes, &sched, 8192));
    judge(rec, plan, plan.clone(), "declared-packet-length", &format!("tag {tag} announcing {declared} octets over {len} supplied"), len, 0, &m);
}

// ------------------------------------------------------------------ (b) overwritten fields

fn artifacts() -> Vec<(&'static str, Vec<u8>)> {
    let mut v: Vec<(&'static str, Vec<u8>)> = Vec::new();
    for k in ["ed25519-v4", "ed25519-v6", "rsa-v4", "p256-v4", "ed448-v6", "ed25519-v6-locked", "ed25519-v4-locked", "dsa-v4"] {
        let key = keys::get(k);
        v.push(("cert", key.public.to_bytes().unwrap_or_default()));
        v.push(("seckey", key.secret.to_bytes().unwrap_or_default()));
    }
    let msgs = [
        json!({"source":"bytes","file_name":"name.txt","compression":"none","signers":[{"key":"ed25519-v4","hash":"sha256"},{"key":"ed25519-v6","hash":"sha512"}],"enc":{"k":"none"},"rng_key":1}),
        json!({"source":"bytes","compression":"zip","signers":[],"enc":{"k":"none"},"rng_key":2}),
        json!({"source":"bytes","compression":"bzip2","signers":[],"enc":{"k":"none"},"rng_key":2}),
        json!({"source":"reader","partial":512,"compression":"none","signers":[],"enc":{"k":"v1","sym":"aes128"},"recipients":[{"key":"ed25519-v4"},{"key":"rsa-v4"},{"key":"p256-v4"}],"passwords":[{"pw":"x","s2k":{"k":"iterated","hash":"sha256","count":1}}],"rng_key":3}),
        json!({"source":"bytes","compression":"none","signers":[],"enc":{"k":"v2","sym":"aes256","aead":"eax","chunk":2},"recipients":[{"key":"ed25519-v6"},{"key":"ed448-v6"}],"passwords":[{"pw":"x","s2k":{"k":"argon2","t":1,"p":1,"m":4}}],"rng_key":4}),
    ];
    for c in msgs {
        let payload: Vec<u8> = (0..1500u32).map(|i| (i % 251) as u8).collect();
        if let (Ok(b), _) = workload::build_reference(&c, &payload, ju64(&c, "rng_key"), false) {
            v.push(("msg", b));
        }
    }
    v
}

fn gen_fields(ctx: &GenCtx) -> Vec<Value> {
    let arts = artifacts();
    let mut plans = Vec::new();
    for (ai, (_k, bytes)) in arts.iter().enumerate() {
        let Ok(pk) = deframe(bytes) else { continue };
        for (pi, p) in pk.iter().enumerate() {
            let n = p.body.len().min(if ctx.tier == Tier::Thorough { 600 } else { 300 });
            // one plan per (artifact, packet, block of 32 offsets)
            let mut off = 0;
            while off < n {
                plans.push(json!({"artifact": ai, "pkt": pi, "from": off, "to": (off + 32).min(n)}));
                off += 32;
            }
        }
    }
    plans
}

fn run_fields(plan: &Value, rec: &mut Rec) {
    let arts = artifacts();
    let Some((kind, bytes)) = arts.get(jusize(plan, "artifact")) else { return };
    let Ok(pk) = deframe(bytes) else { return };
    let Some(p) = pk.get(jusize(plan, "pkt")) else { return };
    let only = plan.get("only");
    let offs: Vec<usize> = match only {
        Some(o) => vec![jusize(o, "off")],
        None => (jusize(plan, "from")..jusize(plan, "to")).collect(),
    };
    rec.sample(json!({"artifact": kind, "packet": jusize(plan, "pkt"), "tag": p.tag, "offsets": [jusize(plan,"from"), jusize(plan,"to")]}));
    for off in offs {
        // (width, value, filler): with filler, 3000 octets are appended to the packet body so that a field
        // declaring megabytes is followed by more than 1 KiB of real data - still far less than declared
        for (width, value, filler) in [(1usize, 0xFFu32, 0usize), (1, 0xFE, 0), (2, 0xFFFF, 0), (2, 0xFFF0, 0), (4, 0xFFFF_FFFF, 0), (4, 0x7FFF_FFFF, 0), (4, 0x0100_0000, 0), (4, 0x8000_0000, 0),
            (4, 0x0100_0000, 3000), (4, 0x0400_0000, 3000), (2, 0xFFFF, 3000)] {
            if let Some(o) = only {
                if jusize(o, "width") != width || ju64(o, "value") != value as u64 || jusize(o, "filler") != filler {
                    continue;
                }
            }
            if off + width > p.body.len() {
                continue;
            }
            let mut body = p.body.clone();
            let be = value.to_be_bytes();
            body[off..off + width].copy_from_slice(&be[4 - width..]);
            if body == p.body {
                continue;
            }
            if filler > 0 {
                if off > 120 {
                    continue; // keep the cost of this variant down: length fields sit near the start
                }
                body.extend((0..filler).map(|i| (i * 31 + 7) as u8));
            }
            let mut out = Vec::new();
            for (i, q) in pk.iter().enumerate() {
                if i == jusize(plan, "pkt") {
                    out.extend_from_slice(&frame(q.tag, &body, &LenForm::NewMinimal).unwrap());
                } else {
                    out.extend_from_slice(&bytes[q.start..q.end]);
                }
            }
            let len = out.len() as u64;
            let arc = Arc::new(out);
            let mut h = Fnv::default();
            h.str(&plan.to_string());
            h.u64((off * 16 + width) as u64);
            h.u64(value as u64);
            h.u64(filler as u64);
            rec.eval(h.0, true);
            rec.count(&format!("fault:F-declare:field-{width}-octets{}", if filler > 0 { "+3000-supplied" } else { "" }));
            let mut vplan = plan.clone();
            vplan["only"] = json!({"off": off, "width": width, "value": value, "filler": filler});
            // SEIPDv2 chunk size octet: the documented stream buffer is 2 * (chunk + 16)
            let mut extra = if p.tag == 18 && off <= 3 { 2 * ((64u64 << 16) + 16) } else { 0 };
            if pk.iter().any(|q| q.tag == 8) {
                extra += 8 << 20; // fixed decompressor state (bzip2: up to ~3.7 MiB for a level-9 block, chosen by one header octet)
            }
            // an edit inside a compressed payload changes what it expands to: the octets that an independent
            // decompressor gets out of it are octets "actually present" for everything behind the decompressor
            // (the property bounds memory by supplied data, not the compression ratio)
            let mut len = len;
            if p.tag == 8 && off >= 1 {
                let expanded = decompressed_len(&body);
                if expanded > body.len() as u64 {
                    rec.count("probe:edited-compressed-payload-expands");
                    extra += 16 * expanded;
                    len += expanded;
                }
            }
            // Argon2 memory parameter within the documented ceiling is the KDF's documented cost, not parsing
            let m = measured(extra, || {
                parse_everything(&arc, &Sched::Full, 8192);
            });
            judge(rec, plan, vplan, &format!("overwritten-field:{kind}:tag{}", p.tag), &format!("{kind} packet #{} (tag {}) body offset {off}: {width}-octet value {value:#x}", jusize(plan, "pkt"), p.tag), len, extra, &m);
        }
    }
}

/// octets an independent decompressor (flate2 / bzip2 crates) produces from a compressed-data packet body
/// before its end or first error, capped at 256 MiB
fn decompressed_len(body: &[u8]) -> u64 {
    use std::io::Read;
    let Some((alg, data)) = body.split_first() else { return 0 };
    let mut r: Box<dyn Read + '_> = match alg {
        1 => Box::new(flate2::read::DeflateDecoder::new(data)),
        2 => Box::new(flate2::read::ZlibDecoder::new(data)),
        3 => Box::new(bzip2::read::BzDecoder::new(data)),
        _ => return 0,
    };
    let mut buf = vec![0u8; 1 << 16];
    let mut n = 0u64;
    loop {
        match r.read(&mut buf) {
            Ok(0) | Err(_) => return n,
            Ok(k) => {
                n += k as u64;
                if n > 256 << 20 {
                    return n;
                }
            }
        }
    }
}

// ------------------------------------------------------------------ (c) repeated structures

fn gen_repeated(ctx: &GenCtx) -> Vec<Value> {
    let n = if ctx.tier == Tier::Thorough { 100_000 } else { 30_000 };
    ["marker", "padding", "signature", "userid", "trust", "ops", "ops_msg"].iter().map(|k| json!({"kind": k, "n": n})).collect()
}

fn one_packet(kind: &str) -> Vec<u8> {
    match kind {
        "marker" => frame(10, b"PGP", &LenForm::NewMinimal).unwrap(),
        "padding" => frame(21, &[0x5a; 16], &LenForm::NewMinimal).unwrap(),
        "userid" => frame(13, b"Repeated User <r@example.org>", &LenForm::NewMinimal).unwrap(),
        "trust" => frame(12, &[1, 2], &LenForm::NewMinimal).unwrap(),
        "ops" => {
            let mut b = vec![3u8, 0, 8, 22];
            b.extend_from_slice(&[1, 2, 3, 4, 5, 6, 7, 8]);
            b.push(0);
            frame(4, &b, &LenForm::NewMinimal).unwrap()
        }
        _ => {
            let k = keys::get("ed25519-v4");
            let mut rng = SimRng::new(1, "c19", false);
            let s = pgp::composed::DetachedSignature::sign_binary_data(&mut rng, &*k.secret, &"".into(), pgp::crypto::hash::HashAlgorithm::Sha256, &b"x"[..]).unwrap();
            s.to_bytes().unwrap()
        }
    }
}

fn run_repeated(plan: &Value, rec: &mut Rec) {
    let kind = jstr(plan, "kind");
    let n = jusize(plan, "n");
    // "ops_msg": a legal message  count x one-pass signature, literal, count x signature  (one real signer, repeated)
    let signed_parts: Option<(Vec<u8>, Vec<u8>, Vec<u8>)> = if kind == "ops_msg" {
        let cfg = json!({"source":"bytes","file_name":"","compression":"none","signers":[{"key":"ed25519-v4","hash":"sha256"}],"enc":{"k":"none"},"rng_key":1});
        workload::build_reference(&cfg, b"many signers", 1, false).0.ok().and_then(|m| {
            let pk = deframe(&m).ok()?;
            if pk.len() != 3 {
                return None;
            }
            Some((m[pk[0].start..pk[0].end].to_vec(), m[pk[1].start..pk[1].end].to_vec(), m[pk[2].start..pk[2].end].to_vec()))
        })
    } else {
        None
    };
    if kind == "ops_msg" && signed_parts.is_none() {
        rec.count("skip:ops-msg-build");
        return;
    }
    let unit = if kind == "ops_msg" { Vec::new() } else { one_packet(kind) };
    let mk = |count: usize| -> Arc<Vec<u8>> {
        if let Some((ops, lit, sig)) = &signed_parts {
            let mut v = Vec::with_capacity((ops.len() + sig.len()) * count + lit.len());
            for i in 0..count {
                let at = v.len();
                v.extend_from_slice(ops);
                // the "nested" octet (last of the packet): 0 = another one-pass signature follows
                let last = v.len() - 1;
                v[last] = if i + 1 == count { 1 } else { 0 };
                let _ = at;
            }
            v.extend_from_slice(lit);
            for _ in 0..count {
                v.extend_from_slice(sig);
            }
            return Arc::new(v);
        }
        let mut v = Vec::with_capacity(unit.len() * count);
        for _ in 0..count {
            v.extend_from_slice(&unit);
        }
        Arc::new(v)
    };
    let full = mk(n);
    let half = mk(n / 2);
    let mut h = Fnv::default();
    h.str(&plan.to_string());
    rec.eval(h.0, true);
    rec.eval(h.0 ^ 1, true);
    rec.sample(json!({"kind": kind, "packets": n, "bytes": full.len()}));
    let parse = |b: &Arc<Vec<u8>>| -> usize {
        let (input, _l) = seams::sim_bufread(b.clone(), Sched::Full, 8192, vec![]);
        let mut count = 0usize;
        for p in PacketParser::new(input) {
            drop(p);
            count += 1;
        }
        // message-level: leading markers / trailing padding are skipped by the message parser; a signed
        // message is read to its end (that is where the trailing signature packets are taken in)
        let (input, _l) = seams::sim_bufread(b.clone(), Sched::Full, 8192, vec![]);
        if let Ok(mut m) = Message::from_bytes(input) {
            let mut buf = [0u8; 4096];
            while let Ok(k) = m.read(&mut buf) {
                if k == 0 {
                    break;
                }
            }
        }
        let (input, _l) = seams::sim_bufread(b.clone(), Sched::Full, 8192, vec![]);
        let _ = SignedPublicKey::from_bytes(input);
        count
    };
    // absolute factor: parsed signatures are ~16 x their wire size (2A with margin); a signer slot of a
    // one-pass signed message (one-pass packet + signature + running hasher) measures ~32 x its 130 wire
    // octets on the pinned tree - a constant factor, so 4A there; linearity itself is judged by doubling
    let factor = if kind == "ops_msg" { 4 * A } else { 2 * A };
    let run = |b: &Arc<Vec<u8>>| measured_with(factor, 0, || parse(b));
    let mf = run(&full);
    let mh = run(&half);
    // parsed signature values are an order of magnitude larger than their wire form; what matters here is
    // proportionality: absolute factor 2*A, and doubling the input may at most double the peak
    judge(rec, plan, plan.clone(), &format!("repeated:{kind}"), &format!("{n} repeated {kind} packets"), (factor / A) * full.len() as u64, 0, &mf);
    if mf.acct.peak > 2 * mh.acct.peak + mh.acct.peak / 2 + C_BASE {
        rec.violation(
            "memory-not-bounded-by-input",
            &format!("repeated:{kind}"),
            format!("{n} packets peak at {} live bytes, {} packets at {} (more than 2.5x for 2x input)", mf.acct.peak, n / 2, mh.acct.peak),
            plan.clone(),
        );
    }
    // linearity by doubling: twice the input may cost at most ~twice the allocation work
    if mf.acct.cumulative > 2 * mh.acct.cumulative + mh.acct.cumulative / 2 + C_CUM {
        rec.violation(
            "allocation-work-not-linear",
            &format!("repeated:{kind}"),
            format!("{n} packets allocate {} bytes in total, {} packets allocate {} (more than 2.5x for 2x input)", mf.acct.cumulative, n / 2, mh.acct.cumulative),
            plan.clone(),
        );
    }
    // time: thread CPU time, consulted only when large in absolute terms (>= 0.15 s for at most a few MB of
    // packets), and then judged by scaling: a quarter of the packets must cost clearly more than a
    // sixteenth of the time (linear would be a quarter)
    let c0 = thread_cpu_seconds();
    let _ = guard(|| parse(&full));
    let t_full = thread_cpu_seconds() - c0;
    if std::env::var("VERIF_DEBUG").is_ok() {
        eprintln!("DEBUG repeated kind={kind} n={n} cpu={t_full:.3}s");
    }
    if t_full >= 0.15 {
        let quarter = mk(n / 4);
        let c1 = thread_cpu_seconds();
        let _ = guard(|| parse(&quarter));
        let t_quarter = (thread_cpu_seconds() - c1).max(1e-4);
        if t_full > 10.0 * t_quarter {
            rec.violation(
                "time-not-linear",
                &format!("repeated:{kind}"),
                format!("{n} repeated {kind} packets cost {t_full:.2} s of CPU, {} packets {t_quarter:.3} s (x{:.1} for x4 input: super-linear)", n / 4, t_full / t_quarter),
                plan.clone(),
            );
        }
    }
}

// ------------------------------------------------------------------ (d) nested containers

fn gen_nested(ctx: &GenCtx) -> Vec<Value> {
    let max = if ctx.tier == Tier::Thorough { 200 } else { 120 };
    let mut v = Vec::new();
    for alg in ["uncompressed", "zip", "zlib"] {
        for depth in [1usize, 2, 3, 8, 16, 17, 32, 64, 100, max] {
            v.push(json!({"alg": alg, "depth": depth}));
        }
    }
    for alg in ["embedded_sig_v4", "embedded_sig_v6", "embedded_sig_mixed"] {
        for depth in [1usize, 7, 8, 9, 50, 400] {
            v.push(json!({"alg": alg, "depth": depth}));
        }
    }
    v
}

fn run_nested(plan: &Value, rec: &mut Rec) {
    let depth = jusize(plan, "depth");
    let alg = jstr(plan, "alg");
    if alg.starts_with("embedded_sig") {
        // Embedded Signature subpackets inside Embedded Signature subpackets: every level is parsed from a
        // copy of the rest, so unbounded nesting costs memory and work quadratic in the input
        let bytes = Arc::new(crate::checks::c04::deep_artifact(alg, depth));
        let len = bytes.len() as u64;
        let mut h = Fnv::default();
        h.str(&plan.to_string());
        rec.eval(h.0, depth > 1);
        rec.count(&format!("fault:F-declare:nested-{alg}"));
        rec.sample(json!({"alg": alg, "depth": depth, "bytes": len}));
        let m = measured(0, || {
            parse_everything(&bytes, &Sched::Full, 8192);
        });
        judge(rec, plan, plan.clone(), &format!("nested:{alg}"), &format!("{depth} levels of {alg}"), len, 0, &m);
        return;
    }
    let mut inner = frame(11, &[b'b', 0, 0, 0, 0, 0, b'h', b'i'], &LenForm::NewMinimal).unwrap();
    for _ in 0..depth {
        let mut body: Vec<u8>;
        match alg {
            "zip" => {
                body = vec![1u8];
                let mut e = flate2::write::DeflateEncoder::new(&mut body, flate2::Compression::fast());
                e.write_all(&inner).unwrap();
                e.finish().unwrap();
            }
            "zlib" => {
                body = vec![2u8];
                let mut e = flate2::write::ZlibEncoder::new(&mut body, flate2::Compression::fast());
                e.write_all(&inner).unwrap();
                e.finish().unwrap();
            }
            _ => {
                body = vec![0u8];
                body.extend_from_slice(&inner);
            }
        }
        inner = frame(8, &body, &LenForm::NewMinimal).unwrap();
    }
    let len = inner.len() as u64;
    let bytes = Arc::new(inner);
    let mut h = Fnv::default();
    h.str(&plan.to_string());
    rec.eval(h.0, depth > 1);
    rec.sample(json!({"alg": alg, "depth": depth, "bytes": len}));
    // each open compression layer legitimately holds its decompressor state (zlib: 32 KiB window + tables) and an 8 KiB buffer
    let extra = depth as u64 * 96 * 1024;
    let m = measured(extra, || {
        let (input, _l) = seams::sim_bufread(bytes.clone(), Sched::Full, 8192, vec![]);
        let Ok(mut m) = Message::from_bytes(input) else { return 0 };
        let mut levels = 0;
        for _ in 0..depth + 2 {
            if !m.is_compressed() {
                break;
            }
            match m.decompress() {
                Ok(n) => {
                    m = n;
                    levels += 1;
                }
                Err(_) => return levels,
            }
        }
        let mut buf = [0u8; 512];
        while let Ok(n) = m.read(&mut buf) {
            if n == 0 {
                break;
            }
        }
        levels
    });
    if let Ok(l) = &m.out {
        rec.count_n("probe:levels-opened", *l as u64);
    }
    judge(rec, plan, plan.clone(), &format!("nested:{alg}"), &format!("{depth} nested {alg} containers"), len, extra, &m);
}

// ------------------------------------------------------------------ (e) streaming

/// source that generates its bytes on the fly (nothing of the stream is ever held in memory)
struct LazyReader {
    total: u64,
    pos: u64,
    sched: Sched,
    call: usize,
    text: bool,
}

impl Read for LazyReader {
    fn read(&mut self, buf: &mut [u8]) -> io::Result<usize> {
        alloc::on_seam(self.pos);
        let n = (buf.len() as u64).min(self.total - self.pos).min(self.sched.size(self.call) as u64) as usize;
        self.call += 1;
        for (i, b) in buf[..n].iter_mut().enumerate() {
            let x = self.pos + i as u64;
            *b = if self.text { b"lorem ipsum dolor sit amet \r\n"[(x % 29) as usize] } else { (x.wrapping_mul(0x9E3779B97F4A7C15) >> 56) as u8 };
        }
        self.pos += n as u64;
        Ok(n)
    }
}

struct NullSink(u64);
impl Write for NullSink {
    fn write(&mut self, b: &[u8]) -> io::Result<usize> {
        self.0 += b.len() as u64;
        Ok(b.len())
    }
    fn flush(&mut self) -> io::Result<()> {
        Ok(())
    }
}

fn stream_cfgs(p: &mut Planner, n: usize) -> Vec<Value> {
    (0..n)
        .map(|_| {
            let enc = match p.below(3) {
                0 => json!({"k":"none"}),
                1 => json!({"k":"v1","sym": *p.pick(&["aes128","aes256","twofish"])}),
                _ => json!({"k":"v2","sym":"aes128","aead": *p.pick(&workload::AEADS), "chunk": *p.pick(&[0usize, 6, 10, 14])}),
            };
            json!({"source":"reader","file_name":"big.bin","data_mode": if p.chance(1,5) { "utf8" } else { "binary" }, "partial": 512u64 << p.range(0, 11),
                   "compression": *p.pick(&["none","none","zip","zlib","bzip2"]), "sign_text": p.chance(1,3),
                   "signers": if p.chance(1,2) { json!([{"key":"ed25519-v4","hash":"sha256"}]) } else { json!([]) },
                   "enc": enc, "recipients": [], "passwords": [], "armor": p.chance(1,4), "rng_key": p.u64()})
        })
        .collect()
}

fn gen_stream_build(ctx: &GenCtx) -> Vec<Value> {
    let mut p = Planner::new(ctx.seed, "c19.stream_build", 0);
    let (n, size) = if ctx.tier == Tier::Thorough { (48, 256u64 << 20) } else { (32, 32u64 << 20) };
    stream_cfgs(&mut p, n).into_iter().enumerate().map(|(i, c)| json!({"cfg": c, "size": if i % 4 == 0 { size } else { size / 8 }, "src_sched": p.sched().to_json()})).collect()
}

fn layer_buffers(cfg: &Value) -> u64 {
    let partial = cfg["partial"].as_u64().unwrap_or(512 * 1024);
    let chunk = if jstr(&cfg["enc"], "k") == "v2" { 64u64 << cfg["enc"]["chunk"].as_u64().unwrap_or(0) } else { 0 };
    // measured 3-6 x partial on the builder side; compressor state up to ~1 MiB (bzip2 level 9 block)
    8 * partial + 8 * (chunk + 16) + if jstr(cfg, "compression") == "bzip2" { 8 << 20 } else if jstr(cfg, "compression") != "none" { 1 << 20 } else { 0 }
}

fn run_stream_build(plan: &Value, rec: &mut Rec) {
    let cfg = &plan["cfg"];
    let size = ju64(plan, "size");
    let extra = layer_buffers(cfg);
    let mut h = Fnv::default();
    h.str(&plan.to_string());
    rec.eval(h.0, true);
    rec.sample(json!({"cfg": cfg, "stream_bytes": size, "allowed_fixed_buffers": extra}));
    let m = measured(extra, || {
        let src = LazyReader { total: size, pos: 0, sched: Sched::from_json(&plan["src_sched"]), call: 0, text: jstr(cfg, "data_mode") == "utf8" };
        let mut rng = SimRng::new(ju64(cfg, "rng_key"), "c19b", false);
        let mut sink = NullSink(0);
        // MessageBuilder::from_reader wants a concrete Read type: wrap through workload with a custom source
        let r = build_from(cfg, src, &mut rng, &mut sink);
        (r.is_ok(), sink.0)
    });
    if let Ok((ok, written)) = &m.out {
        rec.count_n("probe:bytes-streamed-through-builder", *written);
        if !ok {
            rec.count("skip:stream-build-rejected");
        }
    }
    // a stream needs constant memory: bound independent of size (A * delivered would hide leaks, so check the absolute peak)
    match &m.out {
        Err(p) => rec.violation("panic", &norm_loc(&p.loc), format!("building a {size}-byte stream panicked: {}", p.msg), plan.clone()),
        Ok(_) => {
            if m.acct.peak > C_BASE + extra {
                rec.violation("stream-buffer-unbounded", "stream_build", format!("building a {size}-byte message peaked at {} live bytes; fixed buffers allowed for this configuration: {} (largest single allocation {})", m.acct.peak, C_BASE + extra, m.acct.biggest), plan.clone());
            }
        }
    }
}

fn build_from<R: Read, W: Write>(cfg: &Value, src: R, rng: &mut SimRng, sink: W) -> Result<(), String> {
    use pgp::composed::MessageBuilder;
    use pgp::types::Password;
    let mut b = MessageBuilder::from_reader(jstr(cfg, "file_name").to_string(), src);
    if jstr(cfg, "data_mode") == "utf8" {
        b.data_mode(pgp::packet::DataMode::Utf8).map_err(|e| e.to_string())?;
    }
    b.partial_chunk_size(cfg["partial"].as_u64().unwrap_or(512) as u32).map_err(|e| e.to_string())?;
    if let Some(c) = workload::compression(jstr(cfg, "compression")) {
        b.compression(c);
    }
    if jbool(cfg, "sign_text") {
        b.sign_text();
    }
    let signer = keys::get("ed25519-v4");
    if cfg["signers"].as_array().map(|a| !a.is_empty()).unwrap_or(false) {
        b.sign(&*signer.secret, Password::empty(), pgp::crypto::hash::HashAlgorithm::Sha256);
    }
    let armor = jbool(cfg, "armor");
    let enc = &cfg["enc"];
    macro_rules! fin {
        ($b:expr) => {
            if armor { $b.to_armored_writer(&mut *rng, Default::default(), sink).map_err(|e| e.to_string()) } else { $b.to_writer(&mut *rng, sink).map_err(|e| e.to_string()) }
        };
    }
    match jstr(enc, "k") {
        "v1" => {
            let mut b = b.seipd_v1(&mut *rng, workload::sym(jstr(enc, "sym")));
            b.encrypt_with_password(StringToKey::new_iterated(&mut *rng, pgp::crypto::hash::HashAlgorithm::Sha256, 0), &"pw".into()).map_err(|e| e.to_string())?;
            fin!(b)
        }
        "v2" => {
            let mut b = b.seipd_v2(&mut *rng, workload::sym(jstr(enc, "sym")), workload::aead(jstr(enc, "aead")), workload::chunk_size(ju64(enc, "chunk")));
            let s2k = StringToKey::new_iterated(&mut *rng, pgp::crypto::hash::HashAlgorithm::Sha256, 0);
            b.encrypt_with_password(&mut *rng, s2k, &"pw".into()).map_err(|e| e.to_string())?;
            fin!(b)
        }
        _ => fin!(b),
    }
}

fn gen_stream_read(ctx: &GenCtx) -> Vec<Value> {
    let mut p = Planner::new(ctx.seed, "c19.stream_read", 0);
    let (n, size) = if ctx.tier == Tier::Thorough { (40, 64usize << 20) } else { (24, 8usize << 20) };
    let mut plans: Vec<Value> = Vec::new();
    // every order of the option setters x both SEIPDv1 read modes, on one plain SEIPDv1 configuration
    for order in OPT_ORDERS {
        for mode in ["streaming", "checkfirst-limit"] {
            let cfg = json!({"source":"reader","file_name":"big.bin","data_mode":"binary","partial": 8192, "compression":"none","sign_text": false, "signers": [],
                             "enc": {"k":"v1","sym":"aes128"}, "recipients": [], "passwords": [], "armor": false, "rng_key": p.u64()});
            plans.push(json!({"cfg": cfg, "size": 4usize << 20, "src_sched": {"k":"full"}, "cap": 8192, "mode": mode, "opt_order": order}));
        }
    }
    plans.extend(stream_cfgs(&mut p, n).into_iter().map(|c| json!({"cfg": c, "size": size, "src_sched": p.sched().to_json(), "cap": *p.pick(&[512usize, 8192, 65536]), "mode": *p.pick(&["streaming", "checkfirst-limit"]),
        // the order in which the caller sets the decryption options must not matter
        "opt_order": *p.pick(&OPT_ORDERS)})));
    plans
}

const OPT_ORDERS: [&str; 6] = ["mode-only", "mode-then-gnupg", "gnupg-then-mode", "mode-then-legacy", "legacy-then-mode", "mode-then-gnupg-then-legacy"];

fn run_stream_read(plan: &Value, rec: &mut Rec) {
    let cfg = &plan["cfg"];
    let size = jusize(plan, "size");
    // the message itself is harness state: built before the zero point
    let mut msg = Vec::new();
    {
        let src = LazyReader { total: size as u64, pos: 0, sched: Sched::Full, call: 0, text: jstr(cfg, "data_mode") == "utf8" };
        let mut rng = SimRng::new(ju64(cfg, "rng_key"), "c19b", false);
        if build_from(cfg, src, &mut rng, &mut msg).is_err() {
            rec.count("skip:stream-build-rejected");
            return;
        }
    }
    let msg = Arc::new(msg);
    let v1 = jstr(&cfg["enc"], "k") == "v1";
    let limit_mode = jstr(plan, "mode") == "checkfirst-limit" && v1;
    let extra = layer_buffers(cfg) + plan["cap"].as_u64().unwrap_or(8192);
    let mut h = Fnv::default();
    h.str(&plan.to_string());
    rec.eval(h.0, true);
    rec.sample(json!({"cfg": cfg, "message_bytes": msg.len(), "mode": jstr(plan, "mode"), "allowed_fixed_buffers": extra}));
    let limit = 1usize << 20;
    let m = measured(extra + if limit_mode { 3 * limit as u64 } else { 0 }, || {
        let (input, _l) = seams::sim_bufread(msg.clone(), Sched::from_json(&plan["src_sched"]), jusize(plan, "cap").max(1), vec![]);
        let armor = jbool(cfg, "armor");
        let m = if armor { Message::from_armor(input).map(|x| x.0) } else { Message::from_bytes(input) };
        let Ok(m) = m else { return (0u64, "parse-err") };
        let m = if m.is_encrypted() {
            let pw = pgp::types::Password::from("pw");
            let mode = if limit_mode { pgp::types::Seipdv1ReadMode::CheckFirst { max_message_size: limit } } else { pgp::types::Seipdv1ReadMode::Streaming };
            let o = pgp::composed::DecryptionOptions::new();
            let options = match jstr(plan, "opt_order") {
                "mode-then-gnupg" => o.set_seipdv1_read_mode(mode).enable_gnupg_aead(),
                "gnupg-then-mode" => o.enable_gnupg_aead().set_seipdv1_read_mode(mode),
                "mode-then-legacy" => o.set_seipdv1_read_mode(mode).enable_legacy(),
                "legacy-then-mode" => o.enable_legacy().set_seipdv1_read_mode(mode),
                "mode-then-gnupg-then-legacy" => o.set_seipdv1_read_mode(mode).enable_gnupg_aead().enable_legacy(),
                _ => o.set_seipdv1_read_mode(mode),
            };
            let ring = pgp::composed::TheRing { message_password: vec![&pw], decrypt_options: options, ..Default::default() };
            match m.decrypt_the_ring(ring, true) {
                Ok((m, _)) => m,
                Err(_) => return (0, "decrypt-err"),
            }
        } else {
            m
        };
        let Ok(mut m) = m.decompress() else { return (0, "decompress-err") };
        let mut buf = [0u8; 16384];
        let mut total = 0u64;
        loop {
            match m.read(&mut buf) {
                Ok(0) => return (total, "end"),
                Ok(n) => total += n as u64,
                Err(_) => return (total, "read-err"),
            }
        }
    });
    match &m.out {
        Err(p) => rec.violation("panic", &norm_loc(&p.loc), format!("reading a large message panicked: {}", p.msg), plan.clone()),
        Ok((total, how)) => {
            rec.count_n("probe:bytes-streamed-through-reader", *total);
            rec.count(&format!("probe:read-ended:{how}"));
            if limit_mode {
                // message larger than the configured limit: must be refused, and memory stays near the limit
                // (the limit applies to the encrypted container, not to what it decompresses to)
                if *how == "end" && msg.len() > limit + 4096 {
                    rec.violation("seipdv1-limit-not-enforced", "stream_read", format!("default-mode SEIPDv1 with max_message_size {limit} accepted an encrypted message of {} bytes", msg.len()), plan.clone());
                }
                if m.acct.peak > C_BASE + extra + 3 * limit as u64 {
                    rec.violation("stream-buffer-unbounded", "stream_read:checkfirst", format!("CheckFirst with max_message_size {limit} peaked at {} live bytes", m.acct.peak), plan.clone());
                }
            } else {
                if *how != "end" || *total != size as u64 {
                    rec.count("probe:stream-read-incomplete");
                }
                if m.acct.peak > C_BASE + extra {
                    rec.violation("stream-buffer-unbounded", "stream_read", format!("reading a {}-byte message peaked at {} live bytes; fixed buffers allowed for this configuration: {} (largest single allocation {})", msg.len(), m.acct.peak, C_BASE + extra, m.acct.biggest), plan.clone());
                }
            }
        }
    }
    let _ = (Consumer::ReadToEnd, Opener::None, Source::Bytes(vec![]));
    let _: Option<ReadSpec> = None;
}

// ------------------------------------------------------------------ (f) S2K cost ceiling

fn gen_s2k(ctx: &GenCtx) -> Vec<Value> {
    let mut plans = Vec::new();
    let mut p = Planner::new(ctx.seed, "c19.s2k", 0);
    // outside the documented ceiling (t <= 32, p <= 32, 2^m KiB <= 2 GiB): must be refused cheaply
    for m in 22..=255usize {
        plans.push(json!({"t": 1, "p": 1, "m": m, "expect": "refuse"}));
        plans.push(json!({"t": p.range(1, 32), "p": p.range(1, 32), "m": m, "expect": "refuse"}));
    }
    for t in 33..=255usize {
        // (small m: if the refusal is ever lost, the derivation that then runs stays cheap and is reported as such)
        plans.push(json!({"t": t, "p": 1, "m": p.range(3, 12), "expect": "refuse"}));
    }
    for pp in 33..=255usize {
        plans.push(json!({"t": 1, "p": pp, "m": p.range(9, 13), "expect": "refuse"}));
    }
    for (t, pp) in [(0usize, 1usize), (1, 0), (0, 0)] {
        plans.push(json!({"t": t, "p": pp, "m": 10, "expect": "any-cheap"}));
    }
    // inside: small parameters must work and cost what they say
    for m in 3..=12usize {
        plans.push(json!({"t": 1, "p": 1, "m": m, "expect": "ok"}));
    }
    // iterated: memory must not depend on the count
    let counts: Vec<usize> = if ctx.tier == Tier::Thorough { (0..256).collect() } else { (0..256).step_by(17).collect() };
    for c in counts {
        plans.push(json!({"iterated": c}));
    }
    plans
}

fn run_s2k(plan: &Value, rec: &mut Rec) {
    let mut h = Fnv::default();
    h.str(&plan.to_string());
    rec.eval(h.0, true);
    if let Some(c) = plan.get("iterated") {
        let s = StringToKey::IteratedAndSalted { hash_alg: pgp::crypto::hash::HashAlgorithm::Sha256, salt: [7; 8], count: c.as_u64().unwrap_or(0) as u8 };
        let m = measured(0, || s.derive_key(b"password", 32).is_ok());
        rec.count("probe:iterated-count-evaluated");
        match &m.out {
            Err(p) => rec.violation("panic", &norm_loc(&p.loc), format!("iterated S2K count {c} panicked: {}", p.msg), plan.clone()),
            Ok(ok) => {
                if !ok {
                    rec.violation("s2k-failed", "s2k:iterated", format!("iterated S2K with coded count {c} fails"), plan.clone());
                } else if m.acct.peak > 64 * 1024 {
                    rec.violation("memory-not-bounded-by-input", "s2k:iterated", format!("iterated S2K with coded count {c} peaked at {} bytes", m.acct.peak), plan.clone());
                }
            }
        }
        return;
    }
    let (t, p, me) = (jusize(plan, "t") as u8, jusize(plan, "p") as u8, jusize(plan, "m") as u8);
    let s = StringToKey::Argon2 { salt: [9; 16], t, p, m_enc: me };
    rec.sample(json!({"argon2": {"t": t, "p": p, "m_enc": me}, "expect": jstr(plan, "expect")}));
    let m = measured(0, || s.derive_key(b"password", 32).is_ok());
    rec.count(&format!("probe:argon2-{}", jstr(plan, "expect")));
    match &m.out {
        Err(pn) => rec.violation("panic", &norm_loc(&pn.loc), format!("Argon2 t={t} p={p} m={me} panicked: {}", pn.msg), plan.clone()),
        Ok(ok) => match jstr(plan, "expect") {
            "refuse" => {
                if *ok {
                    rec.violation("cost-ceiling-not-enforced", "s2k:argon2", format!("Argon2 parameters t={t} p={p} m_enc={me} are beyond the documented ceiling but were accepted"), plan.clone());
                } else if m.acct.peak > 1 << 20 {
                    rec.violation("cost-ceiling-not-enforced", "s2k:argon2", format!("Argon2 t={t} p={p} m_enc={me} was refused only after allocating {} bytes", m.acct.peak), plan.clone());
                }
            }
            "ok" => {
                if !*ok {
                    rec.violation("s2k-failed", "s2k:argon2", format!("Argon2 t={t} p={p} m_enc={me} (inside the ceiling) fails"), plan.clone());
                } else if m.acct.peak > (1u64 << me) * 1024 * 2 + (1 << 20) {
                    rec.violation("memory-not-bounded-by-input", "s2k:argon2", format!("Argon2 m_enc={me} peaked at {} bytes (announced {} KiB)", m.acct.peak, 1u64 << me), plan.clone());
                }
            }
            _ => {
                if m.acct.peak > 64 << 20 {
                    rec.violation("cost-ceiling-not-enforced", "s2k:argon2", format!("degenerate Argon2 t={t} p={p} allocated {} bytes", m.acct.peak), plan.clone());
                }
            }
        },
    }
    let _ = new_len;
}

// ------------------------------------------------------------------ (g) armor: unterminated / oversized lines

fn gen_armor_lines(ctx: &GenCtx) -> Vec<Value> {
    let mut v = Vec::new();
    let sizes: &[usize] = if ctx.tier == Tier::Thorough { &[1 << 12, 1 << 16, 1 << 18, 1 << 20] } else { &[1 << 12, 1 << 16, 1 << 18] };
    for what in ["header_value", "header_key", "body_line", "footer", "leading_text", "cleartext_line"] {
        for &n in sizes {
            for cap in [64usize, 8192] {
                if n > (1 << 18) && cap == 64 {
                    continue;
                }
                v.push(json!({"what": what, "n": n, "cap": cap}));
            }
        }
    }
    v
}

fn thread_cpu_seconds() -> f64 {
    let mut ts = libc::timespec { tv_sec: 0, tv_nsec: 0 };
    #[allow(unsafe_code)]
    unsafe {
        libc::clock_gettime(libc::CLOCK_THREAD_CPUTIME_ID, &mut ts);
    }
    ts.tv_sec as f64 + ts.tv_nsec as f64 * 1e-9
}

fn armor_text(what: &str, n: usize) -> Vec<u8> {
    let filler = "Q".repeat(n);
    match what {
        "header_value" => format!("-----BEGIN PGP MESSAGE-----\nComment: {filler}"),
        "header_key" => format!("-----BEGIN PGP MESSAGE-----\n{filler}"),
        "body_line" => format!("-----BEGIN PGP MESSAGE-----\n\n{filler}"),
        "footer" => format!("-----BEGIN PGP MESSAGE-----\n\nAAAA\n={filler}"),
        "leading_text" => format!("{filler}\n{filler}"),
        _ => format!("-----BEGIN PGP SIGNED MESSAGE-----\nHash: SHA256\n\n{filler}"),
    }
    .into_bytes()
}

fn armor_parse_all(bytes: &Arc<Vec<u8>>, cap: usize) {
    let mk = || seams::sim_bufread(bytes.clone(), Sched::Full, cap, vec![]).0;
    let mut buf = [0u8; 4096];
    let mut d = pgp::armor::Dearmor::new(mk());
    while let Ok(k) = d.read(&mut buf) {
        if k == 0 {
            break;
        }
    }
    let _ = Message::from_armor(mk());
    let _ = SignedPublicKey::from_armor_single_buf(mk());
    let _ = pgp::composed::CleartextSignedMessage::from_armor_buf(mk(), Default::default());
}

fn run_armor_lines(plan: &Value, rec: &mut Rec) {
    let n = jusize(plan, "n");
    let what = jstr(plan, "what");
    let bytes = Arc::new(armor_text(what, n));
    let len = bytes.len() as u64;
    let cap = jusize(plan, "cap");
    let mut h = Fnv::default();
    h.str(&plan.to_string());
    rec.eval(h.0, true);
    rec.count(&format!("fault:F-declare:armor-{what}"));
    rec.sample(json!({"what": what, "bytes": len, "cap": cap}));
    let c0 = thread_cpu_seconds();
    let m = measured(0, || armor_parse_all(&bytes, cap));
    let t_full = thread_cpu_seconds() - c0;
    judge(rec, plan, plan.clone(), &format!("armor-line:{what}"), &format!("armor input with a {n}-octet unterminated {what}"), len, 0, &m);
    // Work: thread CPU time is only consulted when it is large in absolute terms (>= 0.15 s for
    // <= 256 KiB of input, i.e. three orders of magnitude above a linear scan), and then judged
    // by scaling: a quarter of the input must cost clearly more than a sixteenth of the time.
    if std::env::var("VERIF_DEBUG").is_ok() {
        eprintln!("DEBUG armor_lines what={what} n={n} cap={cap} cpu={t_full:.3}s");
    }
    if n >= (1 << 18) && cap == 64 && t_full >= 0.15 {
        let quarter = Arc::new(armor_text(what, n / 4));
        let c1 = thread_cpu_seconds();
        let _ = guard(|| armor_parse_all(&quarter, cap));
        let t_quarter = (thread_cpu_seconds() - c1).max(1e-4);
        if t_full > 10.0 * t_quarter {
            rec.violation(
                "time-not-linear",
                &format!("armor-line:{what}"),
                format!(
                    "armor input with an unterminated {what}: {n} octets cost {:.2} s of CPU, {} octets {:.3} s (x{:.1} for x4 input: super-linear{})",
                    t_full,
                    n / 4,
                    t_quarter,
                    t_full / t_quarter,
                    // the three inputs that go through armor::reader::read_from_buf + header_parser
                    if matches!(what, "header_value" | "header_key" | "leading_text") { format!("; read_from_buf re-parses everything buffered so far at every fill of {cap} octets") } else { String::new() }
                ),
                plan.clone(),
            );
        }
    }
}
