//! C08 — secret-key locking: the right password restores the key, nothing else does.

use std::sync::Arc;

use cfb_mode::cipher::{AsyncStreamCipher, KeyIvInit};
use md5::{Digest, Md5};
use pgp::{
    composed::{ArmorOptions, Deserializable, SignedSecretKey},
    crypto::{aead::AeadAlgorithm, sym::SymmetricKeyAlgorithm},
    packet::{Packet, PacketParser, PacketTrait},
    ser::Serialize,
    types::{Password, S2kParams, StringToKey},
};
use serde_json::{json, Value};

use crate::{
    keys,
    model::framer::{deframe, frame, LenForm},
    rng::SimRng,
    runner::{guard, norm_loc, Check, Family, GenCtx, Rec},
    seams::{self, Sched, SimWriter},
    util::{jbool, jstr, ju64, jusize, Fnv, Planner},
    workload,
};

pub fn check() -> Check {
    Check {
        property: "C08",
        level: "exploration",
        rule: "lock/unlock cycles over real secret key packets of every pool algorithm (primary and subkey, v4 and v6) x S2K usage {CFB(254), AEAD(253) x EAX/OCB/GCM} x cipher x S2K specifier {salted, iterated with sampled coded counts 0..255, Argon2 small, simple} x passwords {empty, ASCII, non-UTF-8, 200 bytes} with IV/nonce/salt from the RNG seam (incl. biased first octets); then store (binary or armored through sink schedules) -> parse (through source schedules) -> unlock. Wrong passwords must fail. Channel faults on the stored key: every bit of the S2K parameters, IV/nonce, protected blob and - for AEAD - of the public key fields flipped; unlocking must fail. Keys rpgp can only accept (S2K usage 255 and a legacy cipher octet) come from a legacy-peer stub (CFB via the cfb-mode/aes crates, MD5 key for the legacy octet). Family foreign_peer: keys locked by another implementation - the stub derives the key with its own S2K (simple / salted / iterated, SHA-1 / SHA-256 / SHA-512, also for cipher keys longer than the digest: several hash contexts) and encrypts with AES-128/256-CFB from the aes / cfb-mode crates, usage 254 (SHA-1 check) and 255 (checksum); the right password must restore the key, a wrong one must not. Non-trivial: the key was actually locked; distinct = (key, S2K parameters, password class, mutation) hash.",
        families: vec![
            Family { name: "cycle", gen: gen_cycle, run: run_cycle },
            Family { name: "flip", gen: gen_flip, run: run_cycle },
            Family { name: "legacy_peer", gen: gen_legacy, run: run_legacy },
            Family { name: "foreign_peer", gen: gen_foreign, run: run_foreign },
        ],
        assumptions: vec![
            "configurations the lock API refuses are skipped; once the lock API accepted a configuration, unlock with the same password must succeed",
            "16-bit checksums (usage 255, legacy octet): only the positive direction and flips in the checksum octets themselves are asserted",
            "SHA-1 and AEAD tags are treated as unforgeable",
        ],
        real: vec!["SecretKey/SecretSubkey::set_password_with_s2k, remove_password, unlock", "PlainSecretParams::encrypt, EncryptedSecretParams::unlock, parse_secret_fields", "key serialization and armor"],
        stubs: vec!["legacy peer (usage 255 / legacy cipher octet locker)", "SimRng for IV/nonce/salt", "SimWriter/SimReader for the store round trip", "channel bit flips"],
    }
}

const LOCK_KEYS: [&str; 9] = ["ed25519-v4", "ed25519-v6", "edlegacy-v4", "p256-v4", "ed448-v6", "k256-v4", "rsa-v4", "p384-v6", "dsa-v4"];

fn plan_lock(p: &mut Planner, flip: bool) -> Value {
    let usage = *p.pick(&["cfb", "cfb", "aead", "aead"]);
    let sym = *p.pick(&["aes128", "aes192", "aes256", "twofish", "camellia128", "camellia256", "cast5", "blowfish", "tripledes"]);
    let s2k = match p.below(8) {
        0 => json!({"k":"simple","hash":"sha256"}),
        1 => json!({"k":"salted","hash": *p.pick(&["sha256","sha512"])}),
        2 | 3 => json!({"k":"argon2","t": p.range(1,2),"p": p.range(1,2),"m": p.range(4,6)}),
        _ => json!({"k":"iterated","hash": *p.pick(&["sha256","sha384","sha512","sha224"]), "count": if p.chance(1,2) { p.range(0, 30) } else { *p.pick(&[0usize, 96, 128, 200]) }}),
    };
    let pw: Vec<u8> = match p.below(5) {
        0 => vec![],
        1 => b"correct horse battery staple".to_vec(),
        2 => vec![0xff, 0xfe, 0x00, 0x80, b'x'],
        3 => p.bytes(200),
        _ => format!("pw{}", p.below(1000)).into_bytes(),
    };
    // passwords whose length sits at the decoded iteration count (the "hash at least salt+password once" clamp)
    // (not in the flip family: once salt+password is longer than the decoded count, the count octet
    // legitimately stops mattering, so flipping it does not change the derived key)
    let pw: Vec<u8> = if !flip && jstr(&s2k, "k") == "iterated" && s2k["count"].as_u64().unwrap_or(255) <= 20 && p.chance(1, 3) {
        let c = s2k["count"].as_u64().unwrap_or(0) as u32;
        let decoded = ((16 + (c & 15)) << ((c >> 4) + 6)) as usize;
        let l = decoded.saturating_sub(p.range(0, 12)) + if p.chance(1, 6) { p.range(1, 3) } else { 0 };
        (0..l).map(|i| b'a' + (i % 23) as u8).collect()
    } else {
        pw
    };
    json!({"key": if flip { *p.pick(&["ed25519-v4","ed25519-v6","p256-v4","edlegacy-v4","ed448-v6"]) } else { *p.pick(&LOCK_KEYS) },
           "which": *p.pick(&["primary","subkey"]), "usage": usage, "aead": *p.pick(&workload::AEADS), "sym": if usage == "aead" { *p.pick(&["aes128","aes192","aes256"]) } else { sym },
           "s2k": s2k, "pw": hex::encode(pw), "store": *p.pick(&["none","binary","armored"]),
           "sink_sched": p.sched().to_json(), "src_sched": p.sched().to_json(), "cap": *p.pick(&[1usize, 7, 64, 8192]),
           "bias": p.chance(1,3), "rng_key": p.u64(), "flip": flip, "pick": p.u64()})
}

fn gen_cycle(ctx: &GenCtx) -> Vec<Value> {
    let n = ctx.n(9000, 300_000);
    (0..n).map(|i| plan_lock(&mut Planner::new(ctx.seed, "c08.cycle", i as u64), false)).collect()
}

fn gen_flip(ctx: &GenCtx) -> Vec<Value> {
    let n = ctx.n(700, 8_000);
    (0..n).map(|i| plan_lock(&mut Planner::new(ctx.seed, "c08.flip", i as u64), true)).collect()
}

fn s2k_params(plan: &Value, rng: &mut SimRng) -> S2kParams {
    use rand::RngCore;
    let sym = workload::sym(jstr(plan, "sym"));
    let s2k = workload::s2k(&plan["s2k"], rng);
    if jstr(plan, "usage") == "aead" {
        let mode = workload::aead(jstr(plan, "aead"));
        let mut nonce = vec![0u8; mode.nonce_size()];
        rng.fill_bytes(&mut nonce);
        S2kParams::Aead { sym_alg: sym, aead_mode: mode, s2k, nonce: nonce.into() }
    } else {
        let mut iv = vec![0u8; sym.block_size()];
        rng.fill_bytes(&mut iv);
        S2kParams::Cfb { sym_alg: sym, s2k, iv: iv.into() }
    }
}

/// the secret key packet under test, as (tag, packet-with-header bytes) of the current state
fn packet_bytes(k: &SignedSecretKey, sub: bool) -> Result<Vec<u8>, String> {
    let mut out = Vec::new();
    if sub {
        k.secret_subkeys[0].key.to_writer_with_header(&mut out).map_err(|e| e.to_string())?;
    } else {
        k.primary_key.to_writer_with_header(&mut out).map_err(|e| e.to_string())?;
    }
    Ok(out)
}

fn lock(k: &mut SignedSecretKey, sub: bool, pw: &Password, params: S2kParams) -> Result<(), String> {
    if sub {
        k.secret_subkeys[0].key.set_password_with_s2k(pw, params).map_err(|e| e.to_string())
    } else {
        k.primary_key.set_password_with_s2k(pw, params).map_err(|e| e.to_string())
    }
}

fn is_locked(k: &SignedSecretKey, sub: bool) -> bool {
    if sub {
        k.secret_subkeys[0].key.secret_params().is_encrypted()
    } else {
        k.primary_key.secret_params().is_encrypted()
    }
}

fn try_unlock(k: &SignedSecretKey, sub: bool, pw: &Password) -> Result<(), String> {
    let r = if sub { k.secret_subkeys[0].key.unlock(pw, |_, _| Ok(())) } else { k.primary_key.unlock(pw, |_, _| Ok(())) };
    match r {
        Ok(Ok(())) => Ok(()),
        Ok(Err(e)) | Err(e) => Err(e.to_string()),
    }
}

fn remove_pw(k: &mut SignedSecretKey, sub: bool, pw: &Password) -> Result<(), String> {
    if sub {
        k.secret_subkeys[0].key.remove_password(pw).map_err(|e| e.to_string())
    } else {
        k.primary_key.remove_password(pw).map_err(|e| e.to_string())
    }
}

/// parse one secret (sub)key packet and try to unlock it
fn unlock_packet(stream: &[u8], pw: &Password) -> Result<Vec<u8>, String> {
    unlock_packet_pub(stream, pw, None)
}

/// `orig_pub`: if given and the parsed packet's public part re-serializes to exactly these bytes,
/// the damage did not change the value of any public field (e.g. an MPI bit count that parsing
/// normalizes): report that as Err("NORMALIZED") so the caller can skip the case.
fn unlock_packet_pub(stream: &[u8], pw: &Password, orig_pub: Option<&[u8]>) -> Result<Vec<u8>, String> {
    let p = PacketParser::new(stream).next().ok_or("no packet")?.map_err(|e| e.to_string())?;
    if let Some(op) = orig_pub {
        let pb = match &p {
            Packet::SecretKey(k) => k.public_key().to_bytes().ok(),
            Packet::SecretSubkey(k) => k.public_key().to_bytes().ok(),
            _ => None,
        };
        if pb.as_deref() == Some(op) {
            return Err("NORMALIZED".into());
        }
    }
    match p {
        Packet::SecretKey(mut k) => {
            k.unlock(pw, |_, _| Ok(())).map_err(|e| e.to_string())?.map_err(|e| e.to_string())?;
            k.remove_password(pw).map_err(|e| e.to_string())?;
            let mut o = Vec::new();
            k.to_writer_with_header(&mut o).map_err(|e| e.to_string())?;
            Ok(o)
        }
        Packet::SecretSubkey(mut k) => {
            k.unlock(pw, |_, _| Ok(())).map_err(|e| e.to_string())?.map_err(|e| e.to_string())?;
            k.remove_password(pw).map_err(|e| e.to_string())?;
            let mut o = Vec::new();
            k.to_writer_with_header(&mut o).map_err(|e| e.to_string())?;
            Ok(o)
        }
        _ => Err("not a secret key packet".into()),
    }
}

fn run_cycle(plan: &Value, rec: &mut Rec) {
    let pk = keys::get(jstr(plan, "key"));
    let sub = jstr(plan, "which") == "subkey";
    let pw_bytes = hex::decode(jstr(plan, "pw")).unwrap_or_default();
    let pw = Password::from(&pw_bytes[..]);
    // a wrong password that is as close to the right one as possible: last octet changed, one octet
    // longer or one octet shorter (chosen by the plan)
    // (iterated S2K hashes salt||password cyclically up to the count: a password that is one octet
    // shorter or longer collides by design when the octet concerned equals the first salt octet and the
    // count ends there - so those two variants are only used with the other specifiers, and the
    // extension is longer than a salt)
    let iterated = jstr(&plan["s2k"], "k") == "iterated";
    let mut wrong = pw_bytes.clone();
    match (ju64(plan, "pick") % 3, wrong.len()) {
        (0, n) if n > 0 => wrong[n - 1] ^= 0x01,
        (1, n) if n > 1 && !iterated => {
            wrong.pop();
        }
        (1, n) if n > 0 => wrong[n - 1] ^= 0x80,
        _ => wrong.extend_from_slice(b"!wrong-pw!"),
    }
    let wrong_pw = Password::from(&wrong[..]);
    let mut rng = SimRng::new(ju64(plan, "rng_key"), "c08", jbool(plan, "bias"));
    let mut key = pk.secret.clone();
    let Ok(orig) = packet_bytes(&key, sub) else { return };
    let params = s2k_params(plan, &mut rng);
    let shape = {
        let mut h = Fnv::default();
        for k in ["key", "which", "usage", "aead", "sym", "store"] {
            h.str(jstr(plan, k));
        }
        h.str(&plan["s2k"].to_string());
        h.u64(pw_bytes.len() as u64);
        h.u64(ju64(plan, "rng_key"));
        h.0
    };
    let desc = format!("{} {} usage={} sym={} s2k={}", pk.name, jstr(plan, "which"), jstr(plan, "usage"), jstr(plan, "sym"), plan["s2k"]);
    let site = format!("lock:{}:{}", jstr(plan, "usage"), jstr(&plan["s2k"], "k"));
    match guard(|| lock(&mut key, sub, &pw, params)) {
        Err(p) => {
            rec.eval(shape, true);
            rec.violation("panic", &norm_loc(&p.loc), format!("set_password_with_s2k panicked ({desc}): {}", p.msg), plan.clone());
            return;
        }
        Ok(Err(e)) => {
            rec.count(&format!("skip:lock-refused:{}", &e[..e.len().min(44)]));
            return;
        }
        Ok(Ok(())) => {}
    }
    rec.eval(shape, true);
    rec.count(&format!("usage:{}", jstr(plan, "usage")));
    rec.count(&format!("s2k:{}", jstr(&plan["s2k"], "k")));
    if rng.biased > 0 {
        rec.count("fault:F-rng:biased-first-octet");
    }
    rec.sample(json!({"key": pk.name, "which": jstr(plan, "which"), "usage": jstr(plan, "usage"), "sym": jstr(plan, "sym"), "s2k": plan["s2k"], "pw_len": pw_bytes.len(), "store": jstr(plan, "store")}));
    if !is_locked(&key, sub) {
        rec.violation("not-locked", &site, format!("set_password_with_s2k returned Ok but the key is not locked ({desc})"), plan.clone());
        return;
    }
    let Ok(locked_packet) = packet_bytes(&key, sub) else {
        rec.violation("serialize-failed", &site, format!("locked key does not serialize ({desc})"), plan.clone());
        return;
    };

    if !jbool(plan, "flip") {
        // ---- direct unlock, wrong password, remove_password
        let r = guard(|| {
            let ok = try_unlock(&key, sub, &pw);
            let bad = try_unlock(&key, sub, &wrong_pw);
            let mut k2 = key.clone();
            let rm = remove_pw(&mut k2, sub, &pw).and_then(|_| packet_bytes(&k2, sub));
            let mut k3 = key.clone();
            let rm_bad = remove_pw(&mut k3, sub, &wrong_pw);
            (ok, bad, rm, rm_bad)
        });
        match r {
            Err(p) => {
                rec.violation("panic", &norm_loc(&p.loc), format!("unlock panicked ({desc}): {}", p.msg), plan.clone());
                return;
            }
            Ok((ok, bad, rm, rm_bad)) => {
                if let Err(e) = ok {
                    rec.violation("right-password-rejected", &site, format!("locked with {desc}; unlock with the same password fails: {e}"), plan.clone());
                    return;
                }
                if bad.is_ok() || rm_bad.is_ok() {
                    rec.violation("wrong-password-accepted", &site, format!("unlock with a different password succeeds ({desc})"), plan.clone());
                    return;
                }
                match rm {
                    Err(e) => {
                        rec.violation("right-password-rejected", &site, format!("remove_password with the right password fails: {e} ({desc})"), plan.clone());
                        return;
                    }
                    Ok(b) => {
                        if b != orig {
                            rec.violation("key-material-differs", &site, format!("unlocked key packet differs from the original ({desc})"), plan.clone());
                            return;
                        }
                    }
                }
            }
        }
        // ---- store round trip through the seams
        let store = jstr(plan, "store");
        if store != "none" {
            let (mut w, out, _wl) = SimWriter::new(Sched::from_json(&plan["sink_sched"]), vec![], 400_000);
            let r = guard(|| {
                if store == "armored" {
                    key.to_armored_writer(&mut w, ArmorOptions::default()).map_err(|e| e.to_string())
                } else {
                    key.to_writer(&mut w).map_err(|e| e.to_string())
                }
            });
            if !matches!(r, Ok(Ok(()))) {
                rec.violation("serialize-failed", &site, format!("writing the locked key failed: {r:?}"), plan.clone());
                return;
            }
            let stored = Arc::new(out.lock().unwrap().clone());
            let (input, rl) = seams::sim_bufread(stored, Sched::from_json(&plan["src_sched"]), jusize(plan, "cap").max(1), vec![]);
            let r = guard(|| -> Result<Vec<u8>, String> {
                let mut k2 = if store == "armored" { SignedSecretKey::from_armor_single_buf(input).map_err(|e| e.to_string())?.0 } else { SignedSecretKey::from_bytes(input).map_err(|e| e.to_string())? };
                if packet_bytes(&k2, sub)? != locked_packet {
                    return Err("the locked packet changed in the store round trip".into());
                }
                try_unlock(&k2, sub, &pw)?;
                if try_unlock(&k2, sub, &wrong_pw).is_ok() {
                    return Err("WRONG-PW".into());
                }
                remove_pw(&mut k2, sub, &pw)?;
                packet_bytes(&k2, sub)
            });
            rec.seam_calls += seams::snap(&rl).calls;
            rec.count(&format!("store:{store}"));
            match r {
                Err(p) => rec.violation("panic", &norm_loc(&p.loc), format!("parse/unlock after store panicked ({desc}): {}", p.msg), plan.clone()),
                Ok(Err(e)) if e == "WRONG-PW" => rec.violation("wrong-password-accepted", &site, format!("after the store round trip a different password unlocks ({desc})"), plan.clone()),
                Ok(Err(e)) => rec.violation("right-password-rejected", &format!("{site}:after-store"), format!("after serialize ({store}) -> parse the key no longer unlocks: {e} ({desc})"), plan.clone()),
                Ok(Ok(b)) => {
                    if b != orig {
                        rec.violation("key-material-differs", &format!("{site}:after-store"), format!("key unlocked after the store round trip differs ({desc})"), plan.clone());
                    }
                }
            }
        }
        return;
    }

    // ---- channel faults on the stored (locked) packet
    let Ok(pk_parts) = deframe(&locked_packet) else { return };
    let tag = pk_parts[0].tag;
    let body = pk_parts[0].body.clone();
    // the public part is the body of the corresponding public key packet
    let pub_len = if sub { key.secret_subkeys[0].key.public_key().to_bytes().map(|b| b.len()) } else { key.primary_key.public_key().to_bytes().map(|b| b.len()) };
    let Ok(pub_len) = pub_len else { return };
    let aead = jstr(plan, "usage") == "aead";
    let mut targets: Vec<(usize, usize)> = Vec::new();
    if let Some(o) = plan.get("only") {
        targets.push((jusize(o, "off"), jusize(o, "bit")));
    } else {
        let start = if aead { 0 } else { pub_len };
        let offs: Vec<usize> = (start..body.len()).collect();
        let step = (offs.len() / 160).max(1);
        for (i, &o) in offs.iter().enumerate() {
            // every octet of the S2K parameter region and the tail; sampled in between
            let near_params = o >= pub_len && o < pub_len + 48;
            let tail = o + 24 >= body.len();
            if near_params || tail || i % step == 0 {
                for b in [0usize, 1, 4, 7] {
                    if o == pub_len && b == 0 && !aead {
                        continue; // 254 -> 255 turns the SHA-1 check into a 16-bit sum: probabilistic, outside the fault set
                    }
                    if pk.v6 && o == pub_len + 1 {
                        continue; // v6 cumulative octet count of the S2K fields: framing metadata, neither protected nor bound
                    }
                    targets.push((o, b));
                }
            }
        }
    }
    for (o, b) in targets {
        let mut b2 = body.clone();
        if o >= b2.len() {
            continue;
        }
        b2[o] ^= 1 << b;
        let stream = frame(tag, &b2, &LenForm::NewMinimal).unwrap();
        let mut h = Fnv(shape);
        h.u64((o * 8 + b) as u64);
        rec.eval(h.0, true);
        let region = if o < pub_len { "public-fields" } else if o < pub_len + 1 { "usage-octet" } else if o + 24 >= body.len() { "blob-tail" } else { "params-or-blob" };
        rec.count(&format!("fault:F-flip:{region}"));
        let mut vplan = plan.clone();
        vplan["only"] = json!({"off": o, "bit": b});
        let orig_pub = if o < pub_len { Some(&body[..pub_len]) } else { None };
        match guard(|| unlock_packet_pub(&stream, &pw, orig_pub)) {
            Err(p) => rec.violation("panic", &norm_loc(&p.loc), format!("parsing/unlocking a damaged locked key panicked (offset {o} bit {b}, {region}; {desc}): {}", p.msg), vplan),
            Ok(Err(e)) if e == "NORMALIZED" => rec.count("probe:public-flip-normalized-away-by-parsing"),
            Ok(Ok(unlocked)) => {
                let same = unlocked == orig;
                rec.violation(
                    "damaged-key-unlocks",
                    &format!("flip:{}:{region}", jstr(plan, "usage")),
                    format!("bit {b} at body offset {o} ({region}) flipped, the key still unlocks with its password and yields {} key material ({desc})", if same { "the same" } else { "DIFFERENT" }),
                    vplan,
                );
            }
            Ok(Err(_)) => {}
        }
    }
}

// ------------------------------------------------------------------ legacy peer (usage 255, legacy cipher octet)

fn gen_legacy(ctx: &GenCtx) -> Vec<Value> {
    let n = ctx.n(4000, 80_000);
    (0..n)
        .map(|i| {
            let mut p = Planner::new(ctx.seed, "c08.legacy", i as u64);
            json!({"key": *p.pick(&["ed25519-v4","edlegacy-v4","p256-v4","k256-v4","rsa-v4","dsa-v4"]), "which": *p.pick(&["primary","subkey"]),
                   "usage": *p.pick(&["255","255","legacy"]), "s2k": {"k": *p.pick(&["salted","iterated","simple"]), "hash":"sha256", "count": p.range(0, 40)},
                   "pw": format!("pw{}", p.below(100)), "rng_key": p.u64(), "tamper": p.chance(1,3), "pick": p.u64()})
        })
        .collect()
}

fn run_legacy(plan: &Value, rec: &mut Rec) {
    use rand::RngCore;
    let pk = keys::get(jstr(plan, "key"));
    let sub = jstr(plan, "which") == "subkey";
    let Ok(orig) = packet_bytes(&pk.secret, sub) else { return };
    let Ok(parts) = deframe(&orig) else { return };
    let tag = parts[0].tag;
    let body = &parts[0].body;
    let pub_len = match if sub { pk.secret.secret_subkeys[0].key.public_key().to_bytes() } else { pk.secret.primary_key.public_key().to_bytes() } {
        Ok(b) => b.len(),
        Err(_) => return,
    };
    if body.get(pub_len) != Some(&0) {
        rec.count("skip:not-unprotected");
        return;
    }
    // unprotected v4 layout: [0][secret material][16-bit checksum]
    let secret_and_sum = body[pub_len + 1..].to_vec();
    let pw = jstr(plan, "pw");
    let mut rng = SimRng::new(ju64(plan, "rng_key"), "legacy", false);
    let mut iv = [0u8; 16];
    rng.fill_bytes(&mut iv);
    let usage = jstr(plan, "usage");
    let mut enc = secret_and_sum.clone();
    let mut new_body = body[..pub_len].to_vec();
    if usage == "255" {
        let s2k: StringToKey = workload::s2k(&plan["s2k"], &mut rng);
        let Ok(key) = s2k.derive_key(pw.as_bytes(), 16) else {
            rec.count("skip:derive");
            return;
        };
        cfb_mode::Encryptor::<aes::Aes128>::new_from_slices(key.as_ref(), &iv).unwrap().encrypt(&mut enc);
        new_body.push(255);
        new_body.push(7); // AES-128
        new_body.extend_from_slice(&s2k.to_bytes().unwrap_or_default());
    } else {
        let key = Md5::digest(pw.as_bytes());
        cfb_mode::Encryptor::<aes::Aes128>::new_from_slices(&key, &iv).unwrap().encrypt(&mut enc);
        new_body.push(7); // legacy: the usage octet is the cipher id
    }
    new_body.extend_from_slice(&iv);
    let tamper = jbool(plan, "tamper");
    if tamper {
        // flip a bit of the (encrypted) 16-bit checksum: CFB maps it to exactly that plaintext bit
        let n = enc.len();
        enc[n - 1 - (ju64(plan, "pick") as usize % 2)] ^= 1 << (ju64(plan, "pick") >> 8) % 8;
    }
    new_body.extend_from_slice(&enc);
    let stream = frame(tag, &new_body, &LenForm::NewMinimal).unwrap();
    let mut h = Fnv::default();
    h.str(&plan.to_string());
    rec.eval(h.0, true);
    rec.count(&format!("usage:{usage}{}", if tamper { ":checksum-flipped" } else { "" }));
    rec.sample(json!({"key": pk.name, "which": jstr(plan, "which"), "usage": usage, "s2k": plan["s2k"], "tamper": tamper}));
    let site = format!("legacy-peer:usage-{usage}");
    let desc = format!("{} {} S2K usage octet {} ({})", pk.name, jstr(plan, "which"), if usage == "255" { "255" } else { "7 (legacy cipher octet)" }, plan["s2k"]);
    match guard(|| unlock_packet(&stream, &Password::from(pw))) {
        Err(p) => rec.violation("panic", &norm_loc(&p.loc), format!("unlocking a {desc} key panicked: {}", p.msg), plan.clone()),
        Ok(r) => {
            if tamper {
                if r.is_ok() {
                    rec.violation("damaged-key-unlocks", &site, format!("{desc}: checksum bit flipped, key still unlocks"), plan.clone());
                }
            } else {
                match r {
                    Err(e) => rec.violation("right-password-rejected", &site, format!("a key locked by a peer with {desc} is accepted from the wire but does not unlock with its password: {e}"), plan.clone()),
                    Ok(b) => {
                        if b != orig {
                            rec.violation("key-material-differs", &site, format!("{desc}: unlocked key differs from the original"), plan.clone());
                        }
                    }
                }
            }
        }
    }
    let _ = (AeadAlgorithm::Ocb, SymmetricKeyAlgorithm::AES128);
}

// ------------------------------------------------------------------ keys locked by another implementation (independent S2K + CFB)

fn gen_foreign(ctx: &GenCtx) -> Vec<Value> {
    let n = ctx.n(1500, 40_000);
    (0..n)
        .map(|i| {
            let mut p = Planner::new(ctx.seed, "c08.foreign", i as u64);
            json!({"key": *p.pick(&["ed25519-v4","edlegacy-v4","p256-v4","k256-v4","rsa-v4"]), "which": *p.pick(&["primary","subkey"]),
                   "usage": *p.pick(&[254u64, 254, 255]), "cipher": *p.pick(&["aes128", "aes256"]), "hash": *p.pick(&[2u64, 8, 10]),
                   "kind": *p.pick(&[0u64, 1, 3, 3]), "coded": p.below(60), "pw": format!("pass phrase {}", p.below(1000)), "rng_key": p.u64(), "wrong": p.chance(1, 4)})
        })
        .collect()
}

fn run_foreign(plan: &Value, rec: &mut Rec) {
    use rand::RngCore;
    use sha1::Digest as _;
    let pk = keys::get(jstr(plan, "key"));
    let sub = jstr(plan, "which") == "subkey";
    let Ok(orig) = packet_bytes(&pk.secret, sub) else { return };
    let Ok(parts) = deframe(&orig) else { return };
    let tag = parts[0].tag;
    let body = &parts[0].body;
    let pub_len = match if sub { pk.secret.secret_subkeys[0].key.public_key().to_bytes() } else { pk.secret.primary_key.public_key().to_bytes() } {
        Ok(b) => b.len(),
        Err(_) => return,
    };
    if body.get(pub_len) != Some(&0) || body.len() < pub_len + 3 {
        rec.count("skip:not-unprotected");
        return;
    }
    // unprotected v4 layout: [0][secret material][16-bit checksum]
    let material = &body[pub_len + 1..body.len() - 2];
    let checksum = &body[body.len() - 2..];
    let usage = ju64(plan, "usage") as u8;
    let (cipher_id, key_len) = if jstr(plan, "cipher") == "aes256" { (9u8, 32usize) } else { (7u8, 16usize) };
    let (kind, hash, coded) = (ju64(plan, "kind") as u8, ju64(plan, "hash") as u8, ju64(plan, "coded") as u8);
    let mut rng = SimRng::new(ju64(plan, "rng_key"), "foreign-peer", false);
    let mut salt = [0u8; 8];
    rng.fill_bytes(&mut salt);
    let mut iv = [0u8; 16];
    rng.fill_bytes(&mut iv);
    let pw = jstr(plan, "pw");
    let key = crate::model::reference_s2k(kind, hash, &salt, coded, pw.as_bytes(), key_len);
    let mut plain = material.to_vec();
    if usage == 254 {
        plain.extend_from_slice(&sha1::Sha1::digest(material));
    } else {
        plain.extend_from_slice(checksum);
    }
    if key_len == 32 {
        cfb_mode::Encryptor::<aes::Aes256>::new_from_slices(&key, &iv).unwrap().encrypt(&mut plain);
    } else {
        cfb_mode::Encryptor::<aes::Aes128>::new_from_slices(&key, &iv).unwrap().encrypt(&mut plain);
    }
    let mut new_body = body[..pub_len].to_vec();
    new_body.push(usage);
    new_body.push(cipher_id);
    new_body.push(kind);
    new_body.push(hash);
    if kind != 0 {
        new_body.extend_from_slice(&salt);
    }
    if kind == 3 {
        new_body.push(coded);
    }
    new_body.extend_from_slice(&iv);
    new_body.extend_from_slice(&plain);
    let stream = frame(tag, &new_body, &LenForm::NewMinimal).unwrap();
    let wrong = jbool(plan, "wrong");
    let mut h = Fnv::default();
    h.str(&plan.to_string());
    rec.eval(h.0, true);
    rec.count(&format!("fault:F-byz:foreign-lock:usage-{usage}"));
    if key_len > match hash { 2 => 20, 10 => 64, _ => 32 } {
        rec.count("probe:cipher-key-longer-than-the-digest");
    }
    rec.sample(json!({"key": pk.name, "which": jstr(plan, "which"), "usage": usage, "cipher": plan["cipher"], "s2k_kind": kind, "hash": hash, "coded_count": coded, "wrong_password": wrong}));
    let site = format!("foreign-peer:usage-{usage}");
    let desc = format!("{} {} locked by another implementation: usage {usage}, {} , S2K type {kind} hash {hash} coded count {coded}", pk.name, jstr(plan, "which"), jstr(plan, "cipher"));
    let try_pw = if wrong { format!("{pw}?") } else { pw.to_string() };
    match guard(|| unlock_packet(&stream, &Password::from(try_pw.as_str()))) {
        Err(p) => rec.violation("panic", &norm_loc(&p.loc), format!("unlocking a key ({desc}) panicked: {}", p.msg), plan.clone()),
        Ok(r) => match (wrong, r) {
            // (usage 255 has only a 16-bit checksum: a wrong password passes it once in 65536 tries)
            (true, Ok(_)) if usage == 254 => rec.violation("wrong-password-accepted", &site, format!("{desc}: a different password unlocks the key"), plan.clone()),
            (true, _) => {}
            (false, Err(e)) => rec.violation("right-password-rejected", &site, format!("{desc}: accepted from the wire, but the right password does not unlock it: {e}"), plan.clone()),
            (false, Ok(b)) => {
                if b != orig {
                    rec.violation("key-material-differs", &site, format!("{desc}: the unlocked key differs from the original"), plan.clone());
                }
            }
        },
    }
}
