//! C18 — recipients: every intended recipient can decrypt, nobody else gets plaintext.

use std::sync::Arc;

use pgp::{
    composed::{Message, PlainSessionKey, TheRing},
    types::{KeyDetails, Password},
};
use serde_json::{json, Value};

use crate::{
    keys,
    model::framer::{deframe, frame, LenForm},
    runner::{guard, norm_loc, Check, Family, GenCtx, Rec},
    seams::{self, Consumer},
    util::{jbool, jstr, ju64, payload_from_json, Fnv, Planner},
    workload,
};

pub fn check() -> Check {
    Check {
        property: "C18",
        level: "exploration",
        rule: "multi-party scenarios: one sender encrypts (SEIPDv1 with PKESK v3 / SKESK v4, SEIPDv2 with PKESK v6 / SKESK v6) to 1..4 key recipients over all pool encryption algorithms (X25519, X448, ECDH Curve25519/P-256/P-384/P-521, RSA; locked and unlocked; addressed or anonymous) and 0..3 passwords over S2K kinds; 1..3 outsiders hold unrelated keys/passwords; a decoy stub rewrites the recipient field of one PKESK to name a key that cannot decrypt it. Evaluated: each recipient key alone, each password alone, recipient plus outsiders' keys in both orders, locked keys with several candidate passwords, (SKESK v6 only) the right password among unrelated ones, outsiders only, wrong password, wrong raw session key, and decrypt_the_ring(abort_early = false) with secrets that yield different session keys. Oracle: recipients get exactly the plaintext; non-recipients get Err by the end of the read and not one plaintext byte; conflicting session keys are reported as a conflict. Family foreign_skesk: the sender is another implementation (stub): the v4 SKESK of a SEIPDv1 message is re-made with its own salted/iterated S2K and AES-CFB so that the cipher wrapping the session key (AES-128/192/256) differs from the cipher of the container (any of the 11), as GnuPG's --s2k-cipher-algo allows; the password holder must read the plaintext, a wrong password must not. Non-trivial: at least two ESK packets or an outsider involved; distinct = (scenario, party set) hash.",
        families: vec![Family { name: "parties", gen: gen_parties, run: run_parties }, Family { name: "foreign_skesk", gen: gen_foreign, run: run_foreign }],
        assumptions: vec![
            "SKESK v4 with decoy passwords is excluded by the property itself (its plausibility check false-accepts a few percent of wrong passwords by design)",
            "20-byte MDC / AEAD tags unforgeable; a wrong session key that passes the 16-bit SEIPDv1 quick check still fails at the MDC",
        ],
        real: vec!["MessageBuilder::encrypt_to_key(_anonymous)/encrypt_with_password", "Message::decrypt / decrypt_with_keys / decrypt_with_password / decrypt_with_session_key / decrypt_the_ring (TheRing::find_session_key)", "PKESK/SKESK packets, per-algorithm session key wrapping"],
        stubs: vec!["foreign sender (SKESK v4 built from the sha2 / aes / cfb-mode crates)", "decoy stub (rewrites PKESK recipient fields)", "outsider parties", "consumer driver"],
    }
}

const ENC_KEYS: [&str; 12] = ["ed25519-v4", "ed25519-v6", "edlegacy-v4", "ed448-v6", "p256-v4", "k256-v4", "ed25519-v4-locked", "ed25519-v6-locked", "p384-v6", "p521-v4", "sublocked-v4", "primlocked-v6"];

fn gen_parties(ctx: &GenCtx) -> Vec<Value> {
    let n = ctx.n(9000, 300_000);
    (0..n)
        .map(|i| {
            let mut p = Planner::new(ctx.seed, "c18.parties", i as u64);
            let v2 = p.chance(1, 2);
            let expensive = p.chance(1, 15);
            let lo = if p.chance(1, 4) { 0 } else { 1 };
            let nk = p.range(lo, 4);
            let mut recipients = Vec::new();
            for _ in 0..nk {
                let mut k = *p.pick(&ENC_KEYS);
                if expensive && p.chance(1, 2) {
                    k = "rsa-v4";
                }
                if !expensive && (k == "p384-v6" || k == "p521-v4") && p.chance(2, 3) {
                    k = "ed25519-v4";
                }
                if recipients.iter().any(|r: &Value| jstr(r, "key") == k) {
                    continue;
                }
                recipients.push(json!({"key": k, "anon": p.chance(1, 3)}));
            }
            // a recipient whose addressed encryption subkey is the second or third subkey of its certificate
            if p.chance(1, 6) {
                let k = if p.chance(1, 2) { "multisub-v4" } else { "multisub-v6" };
                if !recipients.iter().any(|r: &Value| jstr(r, "key") == k) {
                    recipients.push(json!({"key": k, "anon": p.chance(1, 2), "sub": p.range(1, 2)}));
                }
            }
            let np = if recipients.is_empty() { p.range(1, 3) } else { p.below(4).min(3) };
            let passwords: Vec<Value> = (0..np)
                .map(|j| {
                    let mut s = workload::plan_s2k(&mut p);
                    if !v2 && jstr(&s, "k") == "argon2" {
                        s = json!({"k":"salted","hash":"sha256"});
                    }
                    json!({"pw": format!("recipient-pw-{j}-{}", p.below(100000)), "s2k": s})
                })
                .collect();
            let enc = if v2 {
                json!({"k":"v2","sym": *p.pick(&["aes128","aes256"]), "aead": *p.pick(&workload::AEADS), "chunk": p.range(0, 6)})
            } else {
                json!({"k":"v1","sym": *p.pick(&workload::SYMS)})
            };
            let cfg = json!({"source":"bytes","file_name":"","data_mode":"binary","partial":512,"compression": *p.pick(&["none","none","zip"]),
                "signers": [], "enc": enc, "recipients": recipients, "passwords": passwords, "armor": false, "rng_key": p.u64(), "bias": p.chance(1,4)});
            json!({"cfg": cfg, "payload": {"gen":"random","len": p.range(0, 600), "key": p.u64()}, "decoy": p.chance(1,3), "pick": p.u64()})
        })
        .collect()
}

#[derive(Debug)]
enum Outcome {
    Plain(Vec<u8>),
    /// error, with the number of plaintext bytes that were released before it
    Err(String, usize),
}

fn open(stream: &Arc<Vec<u8>>, ring: impl FnOnce() -> (Vec<&'static keys::PoolKey>, Vec<String>, Vec<String>, Vec<PlainSessionKey>), abort_early: bool, max: usize) -> Result<Outcome, crate::runner::PanicInfo> {
    let (ks, key_pws, msg_pws, sks) = ring();
    guard(|| {
        let m = match Message::from_bytes(&stream[..]) {
            Ok(m) => m,
            Err(e) => return Outcome::Err(format!("parse: {e}"), 0),
        };
        let kp: Vec<Password> = key_pws.iter().map(|s| Password::from(s.as_str())).collect();
        let mp: Vec<Password> = msg_pws.iter().map(|s| Password::from(s.as_str())).collect();
        let ring = TheRing {
            secret_keys: ks.iter().map(|k| &k.secret).collect(),
            key_passwords: kp.iter().collect(),
            message_password: mp.iter().collect(),
            session_keys: sks,
            ..Default::default()
        };
        let m = match m.decrypt_the_ring(ring, abort_early) {
            Ok((m, _)) => m,
            Err(e) => return Outcome::Err(format!("decrypt: {e}"), 0),
        };
        let mut m = if m.is_compressed() {
            match m.decompress() {
                Ok(m) => m,
                Err(e) => return Outcome::Err(format!("decompress: {e}"), 0),
            }
        } else {
            m
        };
        let (data, end) = seams::drain(&mut m, &Consumer::ReadLoop(vec![97]), max);
        match end {
            Ok(()) => Outcome::Plain(data),
            Err(e) => Outcome::Err(format!("read: {e}"), data.len()),
        }
    })
}

fn run_parties(plan: &Value, rec: &mut Rec) {
    let cfg = &plan["cfg"];
    let payload = payload_from_json(&plan["payload"]);
    let (built, info) = workload::build_reference(cfg, &payload, ju64(cfg, "rng_key"), jbool(cfg, "bias"));
    let Ok(mut stream) = built else {
        rec.count("skip:build");
        return;
    };
    let v2 = jstr(&cfg["enc"], "k") == "v2";
    let recipients: Vec<&'static keys::PoolKey> = cfg["recipients"].as_array().into_iter().flatten().map(|r| keys::get(jstr(r, "key"))).collect();
    let passwords: Vec<String> = cfg["passwords"].as_array().into_iter().flatten().map(|p| jstr(p, "pw").to_string()).collect();
    let outsiders = [keys::get("outsider-v4"), keys::get("outsider-v6"), keys::get("outsider-p256")];
    let pick = ju64(plan, "pick") as usize;

    // ---- decoy stub: one PKESK's recipient field is rewritten to name another recipient's subkey
    let mut decoyed = false;
    // index (in `recipients`) of the recipient whose PKESK was re-addressed: it is no longer reachable
    let mut lost: Option<usize> = None;
    if jbool(plan, "decoy") && recipients.len() >= 2 {
        if let Ok(pk) = deframe(&stream) {
            let pkesks: Vec<usize> = pk.iter().enumerate().filter(|(_, p)| p.tag == 1).map(|(i, _)| i).collect();
            if pkesks.len() >= 2 {
                let victim = pkesks[pick % pkesks.len()];
                let other = recipients[(pick / 7) % recipients.len()];
                let sub = &other.public.public_subkeys[0].key;
                let mut body = pk[victim].body.clone();
                let ok = if body.first() == Some(&3) && body.len() > 9 {
                    body[1..9].copy_from_slice(sub.legacy_key_id().as_ref());
                    true
                } else if body.first() == Some(&6) && body.len() > 2 {
                    // v6: [6][len][key version][fingerprint]
                    let l = body[1] as usize;
                    let fp = sub.fingerprint();
                    let fpb = fp.as_bytes();
                    if l == 1 + fpb.len() && body.len() >= 2 + l {
                        body[2] = if other.v6 { 6 } else { 4 };
                        body[3..3 + fpb.len()].copy_from_slice(fpb);
                        true
                    } else {
                        false
                    }
                } else {
                    false
                };
                if ok && body != pk[victim].body {
                    let mut out = Vec::new();
                    for (i, p) in pk.iter().enumerate() {
                        let b: &[u8] = if i == victim { &body } else { &p.body };
                        // keep the data packet's framing as it was
                        if i + 1 == pk.len() {
                            out.extend_from_slice(&stream[p.start..p.end]);
                        } else {
                            out.extend_from_slice(&frame(p.tag, b, &LenForm::NewMinimal).unwrap());
                        }
                    }
                    stream = out;
                    decoyed = true;
                    // PKESKs are written in the order the recipients were added
                    lost = pkesks.iter().position(|x| *x == victim);
                }
            }
        }
    }
    let stream = Arc::new(stream);
    let max = payload.len() + 1024;
    let n_esk = recipients.len() + passwords.len();
    let mut shape = Fnv::default();
    shape.str(&cfg["enc"].to_string());
    shape.str(&cfg["recipients"].to_string());
    shape.u64(passwords.len() as u64);
    shape.u64(decoyed as u64);
    shape.u64(ju64(cfg, "rng_key"));
    rec.sample(json!({"enc": cfg["enc"], "recipients": cfg["recipients"], "passwords": passwords.len(), "decoy": decoyed, "payload_len": payload.len()}));
    if decoyed {
        rec.count("fault:F-byz:decoy-recipient-field");
    }
    let desc = format!("{} recipients {:?}, {} passwords{}", if v2 { "SEIPDv2" } else { "SEIPDv1" }, recipients.iter().map(|k| k.name).collect::<Vec<_>>(), passwords.len(), if decoyed { ", one PKESK recipient field rewritten" } else { "" });

    let scenario = |name: &str, nontrivial: bool, expect_plain: bool, known_tag: &str, out: Result<Outcome, crate::runner::PanicInfo>, rec: &mut Rec| {
        let mut h = Fnv(shape.0);
        h.str(name);
        rec.eval(h.0, nontrivial);
        rec.count(&format!("scenario:{}", name.split(':').next().unwrap_or(name)));
        let mut vplan = plan.clone();
        vplan["scenario"] = json!(name);
        match out {
            Err(p) => rec.violation("panic", &norm_loc(&p.loc), format!("{name}: decryption panicked: {} ({desc})", p.msg), vplan),
            Ok(Outcome::Plain(d)) => {
                if !expect_plain {
                    rec.violation("non-recipient-got-plaintext", name.split(':').next().unwrap_or(name), format!("{name}: a party that is not a recipient read {} bytes to a clean end ({desc})", d.len()), vplan);
                } else if d != payload {
                    rec.violation("wrong-plaintext", name.split(':').next().unwrap_or(name), format!("{name}: recipient got {} bytes, plaintext has {} ({desc})", d.len(), payload.len()), vplan);
                }
            }
            Ok(Outcome::Err(e, released)) => {
                if expect_plain {
                    rec.violation("recipient-cannot-decrypt", &format!("{}{known_tag}", name.split(':').next().unwrap_or(name)), format!("{name}: an intended recipient gets an error: {e} ({desc})"), vplan);
                } else if released > 0 {
                    rec.violation("plaintext-before-error", name.split(':').next().unwrap_or(name), format!("{name}: {released} plaintext bytes were released to a non-recipient before the error ({desc})"), vplan);
                }
            }
        }
    };

    // a. each recipient key alone (locked keys: candidate passwords, the right one not first)
    for (ri, k) in recipients.iter().enumerate() {
        if lost == Some(ri) {
            continue; // its PKESK now names somebody else: by construction not addressed any more
        }
        let kk = *k;
        let out = open(&stream, || (vec![kk], vec!["not-the-password".to_string(), kk.password.to_string()], vec![], vec![]), true, max);
        scenario(&format!("key-alone:{}", k.name), n_esk >= 2, true, "", out, rec);
        // the addressed subkey is not protected: no key password is needed at all, whatever the state
        // of the primary key
        if !kk.secret.secret_subkeys[0].key.secret_params().is_encrypted() {
            let out = open(&stream, || (vec![kk], vec![], vec![], vec![]), true, max);
            scenario(&format!("key-alone-no-key-password:{}", k.name), true, true, "", out, rec);
        }
    }
    // b. each password alone
    let multi_v4 = !v2 && passwords.len() >= 2;
    for (i, pw) in passwords.iter().enumerate() {
        let pw2 = pw.clone();
        let out = open(&stream, || (vec![], vec![], vec![pw2], vec![]), true, max);
        // tag the one configuration in which SKESK v4 cross-acceptance can occur
        scenario(&format!("password-alone:{i}"), n_esk >= 2, true, if multi_v4 { " [several SKESK v4 packets]" } else { "" }, out, rec);
    }
    // c. recipient + outsiders' keys, both orders
    if let Some(k) = recipients.iter().enumerate().find(|(ri, _)| lost != Some(*ri)).map(|x| x.1) {
        let kk = *k;
        let o = outsiders[pick % 3];
        let out = open(&stream, || (vec![o, kk], vec![kk.password.to_string()], vec![], vec![]), true, max);
        scenario("recipient-after-outsider-key", true, true, "", out, rec);
        let out = open(&stream, || (vec![kk, o, outsiders[(pick + 1) % 3]], vec![kk.password.to_string()], vec![], vec![]), true, max);
        scenario("recipient-before-outsider-keys", true, true, "", out, rec);
        let out = open(&stream, || (vec![o, kk], vec![kk.password.to_string()], vec![], vec![]), false, max);
        scenario("recipient-and-outsider-key-cross-checked", true, true, "", out, rec);
    }
    // d. SKESK v6: right password among unrelated ones
    if v2 {
        if let Some(pw) = passwords.first() {
            let pw2 = pw.clone();
            let out = open(&stream, || (vec![], vec![], vec!["unrelated-1".into(), pw2, "unrelated-2".into()], vec![]), true, max);
            scenario("v6-password-among-unrelated", true, true, "", out, rec);
        }
    }
    // e. outsiders only / wrong password / wrong session key
    let out = open(&stream, || (outsiders.to_vec(), vec!["".into()], vec![], vec![]), true, max);
    scenario("outsider-keys-only", true, false, "", out, rec);
    let out = open(&stream, || (vec![], vec![], vec!["definitely-wrong".into()], vec![]), true, max);
    if v2 || passwords.len() <= 1 {
        scenario("wrong-password", true, false, "", out, rec);
    }
    if let Some(sk) = workload::session_key(&info) {
        let wrong = match &sk {
            PlainSessionKey::V3_4 { sym_alg, key } => {
                let mut k = key.as_ref().to_vec();
                k[0] ^= 0x10; // (not bit 0: DES ignores the parity bits)
                PlainSessionKey::V3_4 { sym_alg: *sym_alg, key: k.into() }
            }
            PlainSessionKey::V6 { key } => {
                let mut k = key.as_ref().to_vec();
                k[0] ^= 0x10; // (not bit 0: DES ignores the parity bits)
                PlainSessionKey::V6 { key: k.into() }
            }
            PlainSessionKey::V5 { key } => PlainSessionKey::V5 { key: key.clone() },
        };
        let w2 = wrong.clone();
        let out = open(&stream, || (vec![], vec![], vec![], vec![w2]), true, max);
        scenario("wrong-session-key", true, false, "", out, rec);
        let sk2 = sk.clone();
        let out = open(&stream, || (vec![], vec![], vec![], vec![sk2]), true, max);
        scenario("right-session-key", false, true, "", out, rec);
        // f'. two PKESKs that decrypt to *different* session keys (the second one re-made by the byzantine stub
        //     around another session key), both recipients' keys presented, cross-check requested
        if recipients.len() >= 2 && !decoyed {
            if let Ok(pk) = deframe(&stream) {
                let pkesks: Vec<usize> = pk.iter().enumerate().filter(|(_, p)| p.tag == 1).map(|(i, _)| i).collect();
                if pkesks.len() == recipients.len() {
                    let which = 1 + pick % (recipients.len() - 1); // never the first: the deviating key is recovered later
                    let victim = recipients[which];
                    // (the subkey this recipient was addressed with)
                    let sub_idx = cfg["recipients"][which].get("sub").and_then(|x| x.as_u64()).unwrap_or(0) as usize;
                    let sub = &victim.public.public_subkeys[sub_idx];
                    let mut rng = crate::rng::SimRng::new(pick as u64, "c18conflict", false);
                    let other_raw: pgp::composed::RawSessionKey = match &wrong {
                        PlainSessionKey::V3_4 { key, .. } | PlainSessionKey::V6 { key } | PlainSessionKey::V5 { key } => key.clone(),
                    };
                    let remade = if v2 {
                        pgp::packet::PublicKeyEncryptedSessionKey::from_session_key_v6(&mut rng, &other_raw, sub)
                    } else {
                        pgp::packet::PublicKeyEncryptedSessionKey::from_session_key_v3(&mut rng, &other_raw, workload::sym(jstr(&cfg["enc"], "sym")), sub)
                    };
                    if let Ok(body) = remade.and_then(|p| pgp::ser::Serialize::to_bytes(&p)) {
                        let mut out = Vec::new();
                        for (i, p) in pk.iter().enumerate() {
                            if i == pkesks[which] {
                                out.extend_from_slice(&frame(1, &body, &LenForm::NewMinimal).unwrap());
                            } else {
                                out.extend_from_slice(&stream[p.start..p.end]);
                            }
                        }
                        let spliced = Arc::new(out);
                        let first = recipients[0];
                        for (name, order) in [("conflicting-pkesk:recipient-order", vec![first, victim]), ("conflicting-pkesk:reverse-order", vec![victim, first])] {
                            let pws: Vec<String> = vec![first.password.to_string(), victim.password.to_string()];
                            let o2 = order.clone();
                            let out = open(&spliced, || (o2, pws, vec![], vec![]), false, max);
                            let mut h = Fnv(shape.0);
                            h.str(name);
                            rec.eval(h.0, true);
                            rec.count("scenario:conflicting-pkesk");
                            rec.count("fault:F-byz:pkesk-with-other-session-key");
                            let mut vplan = plan.clone();
                            vplan["scenario"] = json!(name);
                            match out {
                                Err(p) => rec.violation("panic", &norm_loc(&p.loc), format!("cross-check panicked: {}", p.msg), vplan),
                                Ok(Outcome::Plain(_)) => rec.violation("conflict-not-reported", "conflicting-pkesk", format!("{name}: two PKESKs yield different session keys, both keys were presented with abort_early = false, and one was silently chosen ({desc})"), vplan),
                                Ok(Outcome::Err(e, _)) => {
                                    if !e.contains("inconsistent") {
                                        rec.count("probe:conflicting-pkesk-other-error");
                                    }
                                }
                            }
                        }
                    }
                }
            }
        }
        // f. cross-check: right and wrong session key together must be reported as a conflict
        let (a, b) = (sk.clone(), wrong.clone());
        let out = open(&stream, || (vec![], vec![], vec![], vec![a, b]), false, max);
        let mut h = Fnv(shape.0);
        h.str("conflict");
        rec.eval(h.0, true);
        rec.count("scenario:conflicting-session-keys");
        let mut vplan = plan.clone();
        vplan["scenario"] = json!("conflicting-session-keys");
        match out {
            Err(p) => rec.violation("panic", &norm_loc(&p.loc), format!("cross-check panicked: {}", p.msg), vplan),
            Ok(Outcome::Plain(_)) => rec.violation("conflict-not-reported", "conflicting-session-keys", format!("two different session keys were presented with abort_early = false and one was silently chosen ({desc})"), vplan),
            Ok(Outcome::Err(e, _)) => {
                if !e.contains("inconsistent") {
                    rec.violation("conflict-not-reported", "conflicting-session-keys", format!("expected the 'inconsistent session keys' error, got: {e} ({desc})"), vplan);
                }
            }
        }
    }
}

// ------------------------------------------------------------------ SKESK v4 made by another implementation

fn gen_foreign(ctx: &GenCtx) -> Vec<Value> {
    if !ctx.first_round() {
        return vec![];
    }
    let mut plans = Vec::new();
    let mut i = 0u64;
    for kek in ["aes128", "aes192", "aes256"] {
        for sym in workload::SYMS {
            for s2k in ["salted", "iterated"] {
                let mut p = Planner::new(ctx.seed, "c18.foreign", i);
                i += 1;
                plans.push(json!({"kek": kek, "sym": sym, "s2k": s2k, "len": p.range(0, 300), "key": p.u64(), "compression": *p.pick(&["none", "zip"])}));
            }
        }
    }
    plans
}

/// RFC 9580 3.7.1.2 / 3.7.1.3 with SHA-256 for keys of at most 32 octets
fn foreign_s2k(iterated: bool, salt: &[u8; 8], coded: u8, pw: &[u8], n: usize) -> Vec<u8> {
    use sha2::Digest;
    let unit = [&salt[..], pw].concat();
    let mut h = sha2::Sha256::new();
    if iterated {
        let count = (16usize + (coded as usize & 15)) << ((coded as usize >> 4) + 6);
        let total = count.max(unit.len());
        let mut fed = 0;
        while fed + unit.len() <= total {
            h.update(&unit);
            fed += unit.len();
        }
        h.update(&unit[..total - fed]);
    } else {
        h.update(&unit);
    }
    h.finalize()[..n].to_vec()
}

fn foreign_cfb(kek: &[u8], data: &mut [u8]) {
    use cfb_mode::cipher::{AsyncStreamCipher, KeyIvInit};
    let iv = [0u8; 16];
    match kek.len() {
        16 => cfb_mode::Encryptor::<aes::Aes128>::new_from_slices(kek, &iv).unwrap().encrypt(data),
        24 => cfb_mode::Encryptor::<aes::Aes192>::new_from_slices(kek, &iv).unwrap().encrypt(data),
        _ => cfb_mode::Encryptor::<aes::Aes256>::new_from_slices(kek, &iv).unwrap().encrypt(data),
    }
}

fn run_foreign(plan: &Value, rec: &mut Rec) {
    const PW: &str = "the recipient's password";
    let sym = jstr(plan, "sym");
    let cfg = json!({"source":"bytes","file_name":"","data_mode":"binary","partial":512,"compression": jstr(plan, "compression"),
        "signers": [], "enc": {"k":"v1","sym": sym}, "recipients": [], "passwords": [{"pw": PW, "s2k": {"k":"salted","hash":"sha256"}}], "armor": false, "rng_key": ju64(plan, "key")});
    let payload = payload_from_json(&json!({"gen":"random","len": plan["len"], "key": plan["key"]}));
    let (built, info) = workload::build_reference(&cfg, &payload, ju64(plan, "key"), false);
    let (Ok(stream), Some(session_key)) = (built, info.session_key.clone()) else {
        rec.count("skip:build");
        return;
    };
    let Ok(pk) = deframe(&stream) else { return };
    if pk.len() != 2 || pk[0].tag != 3 {
        rec.count("skip:unexpected-shape");
        return;
    }
    let (kek_id, kek_len) = match jstr(plan, "kek") {
        "aes128" => (7u8, 16usize),
        "aes192" => (8, 24),
        _ => (9, 32),
    };
    let iterated = jstr(plan, "s2k") == "iterated";
    let mut p = Planner::new(ju64(plan, "key"), "foreign-salt", 0);
    let salt: [u8; 8] = p.bytes(8).try_into().unwrap();
    let coded = p.below(40) as u8;
    let kek = foreign_s2k(iterated, &salt, coded, PW.as_bytes(), kek_len);
    let sym_id: u8 = workload::sym(sym).into();
    let mut wrapped = vec![sym_id];
    wrapped.extend_from_slice(session_key.as_ref());
    foreign_cfb(&kek, &mut wrapped);
    let mut body = vec![4u8, kek_id, if iterated { 3 } else { 1 }, 8 /* SHA-256 */];
    body.extend_from_slice(&salt);
    if iterated {
        body.push(coded);
    }
    body.extend_from_slice(&wrapped);
    let mut out = frame(3, &body, &LenForm::NewMinimal).unwrap();
    out.extend_from_slice(&stream[pk[1].start..]);
    let out = Arc::new(out);
    let max = payload.len() + 1024;
    let desc = format!("SKESK v4 from a foreign sender: {} wraps a {} session key, {} S2K", jstr(plan, "kek"), sym, jstr(plan, "s2k"));
    let mut h = Fnv::default();
    h.str(&plan.to_string());
    rec.sample(json!({"kek": plan["kek"], "sym": sym, "s2k": plan["s2k"], "payload_len": payload.len()}));
    rec.count("fault:F-byz:foreign-skesk-v4");
    if kek_len != workload::sym(sym).key_size() {
        rec.count("probe:wrapping-and-session-key-sizes-differ");
    }
    for (scenario, pw, expect_plain) in [("foreign-skesk:right-password", PW, true), ("foreign-skesk:wrong-password", "somebody else's password", false)] {
        rec.eval(h.0 ^ expect_plain as u64, true);
        let mut vplan = plan.clone();
        vplan["scenario"] = json!(scenario);
        match open(&out, || (vec![], vec![], vec![pw.to_string()], vec![]), true, max) {
            Err(pn) => rec.violation("panic", &norm_loc(&pn.loc), format!("{scenario}: {} ({desc})", pn.msg), vplan),
            Ok(Outcome::Plain(d)) if expect_plain && d == payload => {}
            Ok(Outcome::Plain(d)) if expect_plain => rec.violation("recipient-got-wrong-data", "foreign-skesk", format!("{scenario}: {} bytes differ from the payload ({desc})", d.len()), vplan),
            Ok(Outcome::Plain(d)) => rec.violation("non-recipient-got-plaintext", "foreign-skesk", format!("{scenario}: read {} bytes to a clean end ({desc})", d.len()), vplan),
            Ok(Outcome::Err(e, _)) if expect_plain => rec.violation("recipient-cannot-decrypt", "foreign-skesk", format!("{scenario}: {e} ({desc})"), vplan),
            Ok(Outcome::Err(_, n)) if n > 0 => rec.violation("non-recipient-got-plaintext", "foreign-skesk", format!("{scenario}: {n} plaintext bytes released before the error ({desc})"), vplan),
            Ok(Outcome::Err(..)) => {}
        }
    }
}
