//! C06 (signature completeness) and C02 (signature soundness): one signer/verifier pipeline,
//! run fault-free (C06) and with channel faults between signer and verifier (C02).

use std::sync::Arc;

use pgp::{
    composed::{ArmorOptions, CleartextSignedMessage, Deserializable, DetachedSignature, Message, SignedPublicKey},
    packet::{Packet, PacketParser, Signature, SignatureConfig, SignatureType, Subpacket, SubpacketData},
    ser::Serialize,
    types::{KeyDetails, KeyVersion, Password, Tag, Timestamp},
};
use serde_json::{json, Value};

use crate::{
    keys::{self, PoolKey},
    model::{
        canon,
        framer::{deframe, frame, LenForm, Pkt},
    },
    rng::SimRng,
    runner::{guard, norm_loc, Check, Family, GenCtx, Rec, Tier},
    seams::{self, Consumer, Sched, SimReader},
    util::{jbool, jstr, ju64, jusize, payload_from_json, Fnv, Planner},
    workload,
};

pub fn check_c06() -> Check {
    Check {
        property: "C06",
        level: "exploration",
        rule: "fault-free configuration of the signer->channel->verifier pipeline: payloads = ALL strings over {CR, LF, x} up to length 7 plus random strings over {CR, LF, TAB, SP, '-', 'é', '€', NUL, 'a'} up to 2 KiB, x signing interface {detached binary/text, MessageBuilder one-pass binary/text with 1-2 signers, cleartext framework, SignatureConfig::sign, SignatureHasher through io::Write} x key (v4/v6, Ed25519, ECDSA, RSA, Ed448, legacy EdDSA) x hash, delivered under source schedules; every applicable verification interface {DetachedSignature::verify, Signature::verify over a scheduled reader, prefixed-signature message, Message::verify / verify_nested / verify_read, CleartextSignedMessage::verify} must accept, also after serialize -> armor -> benign channel -> parse. Certificate-forming signatures (certification, subkey / primary-key binding, direct key, revocations) made through SignatureConfig must verify through their verify_* counterparts. Non-trivial: payload contains a line-ending or blank character, or the artifact went through armor; distinct = (interface, key, payload) hash.",
        families: vec![
            Family { name: "data_complete", gen: gen_data_complete, run: run_data },
            Family { name: "cert_complete", gen: gen_cert_complete, run: run_cert },
        ],
        assumptions: vec!["cleartext signing is only applicable to valid UTF-8 text", "prefixed-signature messages are assembled by the harness framer from a real detached signature and a literal packet"],
        real: vec!["DetachedSignature, SignatureConfig, SignatureHasher, MessageBuilder signing, CleartextSignedMessage, Signature::verify*, Message::verify*"],
        stubs: vec!["SimReader schedules", "framer stub for prefixed-signature messages", "benign channel rewrites (LF<->CRLF)"],
    }
}

pub fn check_c02() -> Check {
    Check {
        property: "C02",
        level: "fault_enumeration",
        rule: "signed objects from the real signing interfaces (detached binary/text, one-pass messages with 1-2 signers, prefixed-signature messages, cleartext, certifications, subkey and primary-key bindings, direct-key and revocation signatures; v4 and v6; Ed25519, legacy EdDSA, Ed448, ECDSA, RSA) pass through a hostile channel: every bit of short contents flipped, truncation and extension of the content, every bit of each hashed field of the signature packet located by an independent signature-body parser (version, type, public-key algorithm, hash algorithm, hashed-area length, every hashed subpacket octet, salt, signature value octets excluding MPI bit-count prefixes), the one-pass hash-algorithm octet and salt, and key substitution (another key of the same algorithm, the other key version, the encryption subkey). Oracle: every applicable verification entry point returns Err; text-mode content changes inside the documented LF<->CRLF equivalence are skipped. Non-trivial: the mutation changed a hashed byte; distinct = (object, mutation) pairs.",
        families: vec![
            Family { name: "data_sound", gen: gen_data_sound, run: run_data },
            Family { name: "cert_sound", gen: gen_cert_sound, run: run_cert },
        ],
        assumptions: vec!["flips in the unhashed subpacket area, in MPI bit-count prefixes and in the 16-bit hash prefix are outside the fault set (not covered by the signature)", "signatures and hashes are treated as unforgeable"],
        real: vec!["all signing interfaces", "Signature::verify*, DetachedSignature::verify, Message::verify*, CleartextSignedMessage::verify, Signed*Key::verify_bindings"],
        stubs: vec!["channel (bit flips, truncation, extension, key substitution)", "independent signature-body field locator", "framer stub"],
    }
}

// ------------------------------------------------------------------ planning

const IFACES: [&str; 9] = ["detached_bin", "detached_text", "builder_bin", "builder_text", "builder_bin2", "cleartext", "config_sign_text", "hasher_text", "config_sign_bin"];
const SIGN_KEYS: [&str; 11] = ["ed25519-v4", "ed25519-v6", "edlegacy-v4", "p256-v4", "ed448-v6", "rsa-v4", "ed25519-v4-locked", "p384-v6", "p521-v4", "k256-v4", "dsa-v4"];

fn enum_string(n: usize, mut idx: usize) -> Vec<u8> {
    let mut s = Vec::new();
    for _ in 0..n {
        s.push([b'\r', b'\n', b'x'][idx % 3]);
        idx /= 3;
    }
    s
}

fn hash_for(key: &str, p: &mut Planner) -> &'static str {
    match key {
        "ed448-v6" | "p521-v4" => *p.pick(&["sha512", "sha3_512"]),
        "p384-v6" => *p.pick(&["sha384", "sha512", "sha3_512"]),
        _ => *p.pick(&workload::HASHES),
    }
}

/// which issuer subpackets the signature carries: the library's default set, none at all, only the
/// fingerprint, only the key id (v4 keys)
fn plan_issuer(p: &mut Planner) -> &'static str {
    *p.pick(&["default", "default", "default", "none", "fp", "keyid"])
}

fn gen_data_complete(ctx: &GenCtx) -> Vec<Value> {
    let mut plans = Vec::new();
    let mut i = 0u64;
    // exhaustive part: all strings over the 3-symbol abstraction up to length 7
    for n in 0..=(if ctx.first_round() { 7usize } else { 0 }) {
        for idx in 0..3usize.pow(n as u32) {
            let mut p = Planner::new(ctx.seed, "c06.enum", i);
            i += 1;
            // every string meets a rotating pair of interfaces; over the batch all pairs are covered
            for k in 0..2 {
                let iface = IFACES[(idx + k * 4 + n) % IFACES.len()];
                let key = if p.chance(4, 5) { *p.pick(&["ed25519-v4", "ed25519-v6"]) } else { *p.pick(&SIGN_KEYS) };
                plans.push(json!({"mode":"complete","iface": iface, "key": key, "hash": hash_for(key, &mut p),
                    "payload": {"hex": hex::encode(enum_string(n, idx))}, "src_sched": p.sched().to_json(), "rng_key": p.u64()}));
            }
        }
    }
    // payloads whose length sits on / next to the 512-byte and 8 KiB internal buffers, with every kind of ending
    let mut b = 0u64;
    for len in [510usize, 511, 512, 513, 1023, 1024, 1025, 1535, 1536, 2048, 8191, 8192, 8193].into_iter().filter(|_| ctx.first_round()) {
        for ending in ["\r", "\n", "\r\n", "x", " ", "\r\r", "\n\r"] {
            for rep in 0..2 {
                let mut p = Planner::new(ctx.seed, "c06.boundary", b);
                b += 1;
                let mut s: Vec<u8> = Vec::with_capacity(len);
                while s.len() + ending.len() < len {
                    s.push(if rep == 1 && s.len() % 61 == 60 { b'\n' } else { b'a' });
                }
                s.extend_from_slice(ending.as_bytes());
                let key = *p.pick(&["ed25519-v4", "ed25519-v6"]);
                plans.push(json!({"mode":"complete","iface": *p.pick(&IFACES), "key": key, "hash": hash_for(key, &mut p),
                    "payload": {"hex": hex::encode(&s)}, "src_sched": p.sched().to_json(), "rng_key": p.u64()}));
            }
        }
    }
    let n = ctx.n(25_000, 600_000);
    for j in 0..n {
        let mut p = Planner::new(ctx.seed, "c06.random", j as u64);
        let alphabet: [&[u8]; 9] = [b"\r", b"\n", b"\t", b" ", b"-", "é".as_bytes(), "€".as_bytes(), b"\0", b"a"];
        let len = if p.chance(3, 4) { p.range(0, 40) } else { p.range(0, 2048) };
        let mut s = Vec::new();
        while s.len() < len {
            let a: &[u8] = *p.pick(&alphabet);
            s.extend_from_slice(a);
        }
        let key = *p.pick(&SIGN_KEYS);
        plans.push(json!({"mode":"complete","iface": *p.pick(&IFACES), "key": key, "hash": hash_for(key, &mut p), "issuer": plan_issuer(&mut p),
            "payload": {"hex": hex::encode(&s)}, "src_sched": p.sched().to_json(), "rng_key": p.u64()}));
    }
    plans
}

fn gen_data_sound(ctx: &GenCtx) -> Vec<Value> {
    let n = ctx.n(450, 20_000);
    let mut plans: Vec<Value> = Vec::new();
    // contents one octet short of / exactly on the 512-byte and 8 KiB internal buffers: the
    // extension / truncation mutations then cross the boundary
    let mut b = 0u64;
    for len in [511usize, 512, 1023, 1024, 8191, 8192].into_iter().filter(|_| ctx.first_round()) {
        for ending in ["a", "\r", "\n", " "] {
            let mut p = Planner::new(ctx.seed, "c02.boundary", b);
            b += 1;
            let mut s = vec![b'a'; len - ending.len()];
            s.extend_from_slice(ending.as_bytes());
            let iface = *p.pick(&["detached_text", "detached_text", "cleartext", "config_sign_text", "builder_text", "detached_bin"]);
            plans.push(json!({"mode":"sound","iface": iface, "key": *p.pick(&["ed25519-v4", "ed25519-v6"]), "hash": "sha256", "no_issuer": false,
                "payload": {"hex": hex::encode(&s)}, "src_sched": {"k":"full"}, "rng_key": p.u64(), "pick": p.u64(), "boundary": true}));
        }
    }
    plans.extend((0..n)
        .map(|j| {
            let mut p = Planner::new(ctx.seed, "c02.data", j as u64);
            let alphabet: [&[u8]; 7] = [b"\r", b"\n", b" ", b"-", "é".as_bytes(), b"a", b"b"];
            let len = if p.chance(3, 4) { p.range(0, 24) } else { p.range(0, 300) };
            let mut s = Vec::new();
            while s.len() < len {
                let a: &[u8] = *p.pick(&alphabet);
            s.extend_from_slice(a);
            }
            let key = if p.chance(2, 3) { *p.pick(&["ed25519-v4", "ed25519-v6"]) } else { *p.pick(&SIGN_KEYS) };
            if p.chance(1, 12) {
                // signers of different signature types in one message, content with CR LF line endings
                let mut t = b"first line\r\n".to_vec();
                t.extend_from_slice(&s);
                t.extend_from_slice(b"\r\nlast line");
                return json!({"mode":"sound","iface": "builder_mixed", "key": *p.pick(&["ed25519-v4", "ed25519-v6", "p256-v4"]), "hash": "sha256", "issuer": "default",
                    "payload": {"hex": hex::encode(&t)}, "src_sched": {"k":"full"}, "rng_key": p.u64(), "pick": p.u64()});
            }
            json!({"mode":"sound","iface": *p.pick(&IFACES), "key": key, "hash": hash_for(key, &mut p), "issuer": plan_issuer(&mut p),
                "payload": {"hex": hex::encode(&s)}, "src_sched": {"k":"full"}, "rng_key": p.u64(), "pick": p.u64()})
        }));
    plans
}

// ------------------------------------------------------------------ signing

struct Signed {
    /// detached-style signatures over `content`
    sigs: Vec<Signature>,
    /// a complete OpenPGP message (one-pass signed), if the interface makes one
    message: Option<Vec<u8>>,
    /// the armored cleartext document
    cleartext: Option<String>,
    text_mode: bool,
    signers: Vec<&'static PoolKey>,
}

fn issuer_of(plan: &Value) -> &str {
    match jstr(plan, "issuer") {
        "" if jbool(plan, "no_issuer") => "none",
        "" => "default",
        x => x,
    }
}

fn sign_with(plan: &Value, content: &Arc<Vec<u8>>) -> Result<Signed, String> {
    let iface = jstr(plan, "iface");
    let k = keys::get(jstr(plan, "key"));
    let hash = workload::hash(jstr(plan, "hash"));
    let pw = Password::from(k.password);
    let mut rng = SimRng::new(ju64(plan, "rng_key"), "sign", false);
    let sched = Sched::from_json(&plan["src_sched"]);
    let src = || SimReader::new(content.clone(), sched.clone(), vec![]).0;
    let issuer = issuer_of(plan);
    let subpackets = || workload::subpacket_config(issuer, k);
    let e = |e: pgp::errors::Error| e.to_string();
    match iface {
        "detached_bin" => {
            let s = DetachedSignature::sign_binary_data_with_subpackets(&mut rng, &*k.secret, &pw, hash, src(), subpackets()).map_err(e)?;
            Ok(Signed { sigs: vec![s.signature], message: None, cleartext: None, text_mode: false, signers: vec![k] })
        }
        "detached_text" => {
            let s = DetachedSignature::sign_text_data_with_subpackets(&mut rng, &*k.secret, &pw, hash, src(), subpackets()).map_err(e)?;
            Ok(Signed { sigs: vec![s.signature], message: None, cleartext: None, text_mode: true, signers: vec![k] })
        }
        "config_sign_text" | "config_sign_bin" | "hasher_text" => {
            let text = iface != "config_sign_bin";
            let typ = if text { SignatureType::Text } else { SignatureType::Binary };
            let mut cfg = match k.secret.version() {
                KeyVersion::V6 => SignatureConfig::v6(&mut rng, typ, k.secret.algorithm(), hash).map_err(e)?,
                _ => SignatureConfig::v4(typ, k.secret.algorithm(), hash),
            };
            cfg.hashed_subpackets = vec![
                Subpacket::regular(SubpacketData::SignatureCreationTime(Timestamp::now())).map_err(e)?,
                Subpacket::regular(SubpacketData::IssuerFingerprint(k.secret.fingerprint())).map_err(e)?,
            ];
            let sig = if iface == "hasher_text" {
                use std::io::Write;
                let mut h = cfg.into_hasher().map_err(e)?;
                let mut pos = 0;
                let mut call = 0;
                while pos < content.len() {
                    let n = sched.size(call).min(content.len() - pos).max(1);
                    h.write_all(&content[pos..pos + n]).map_err(|e| e.to_string())?;
                    pos += n;
                    call += 1;
                }
                h.sign(&*k.secret, &pw).map_err(e)?
            } else {
                cfg.sign(&*k.secret, &pw, src()).map_err(e)?
            };
            Ok(Signed { sigs: vec![sig], message: None, cleartext: None, text_mode: text, signers: vec![k] })
        }
        "cleartext" => {
            let text = std::str::from_utf8(content).map_err(|_| "not utf8".to_string())?;
            let m = CleartextSignedMessage::sign(&mut rng, text, &*k.secret, &pw).map_err(e)?;
            let armored = m.to_armored_string(ArmorOptions::default()).map_err(e)?;
            Ok(Signed { sigs: m.signatures().to_vec(), message: None, cleartext: Some(armored), text_mode: true, signers: vec![k] })
        }
        "builder_mixed" => {
            // one message, two one-pass signers of different signature types: k signs in text mode, a second
            // key in binary mode (the builder gives all its signers one type, so the stub splices two
            // library-made messages over the same content: OPS(text) OPS(binary) literal SIG(binary) SIG(text))
            let k2 = keys::get(if k.name == "ed25519-v6" { "ed25519-v4" } else { "ed25519-v6" });
            let mut parts = Vec::new();
            for (signer, text) in [(k, true), (k2, false)] {
                let cfg = json!({"source":"reader","file_name":"","data_mode":"binary","partial":512,"compression":"none","sign_text": text,
                    "signers": [{"key": signer.name, "hash": if signer.name == k.name { jstr(plan, "hash") } else { "sha512" }}], "enc": {"k":"none"}, "armor": false, "rng_key": ju64(plan, "rng_key")});
                let mut out = Vec::new();
                let (r, _) = workload::build(&cfg, workload::Source::Reader(src()), &mut rng, &mut out);
                r.map_err(e)?;
                let pk = deframe(&out).map_err(|x| x.to_string())?;
                if pk.len() != 3 || pk[0].tag != 4 || pk[1].tag != 11 || pk[2].tag != 2 {
                    return Err("unexpected message shape".into());
                }
                parts.push((pk[0].body.clone(), out[pk[1].start..pk[1].end].to_vec(), pk[2].body.clone()));
            }
            let mut ops_text = parts[0].0.clone();
            if let Some(l) = ops_text.last_mut() {
                *l = 0; // another one-pass signature packet follows
            }
            let mut msg = frame(4, &ops_text, &LenForm::NewMinimal).ok_or("frame")?;
            msg.extend_from_slice(&frame(4, &parts[1].0, &LenForm::NewMinimal).ok_or("frame")?);
            msg.extend_from_slice(&parts[1].1);
            msg.extend_from_slice(&frame(2, &parts[1].2, &LenForm::NewMinimal).ok_or("frame")?);
            msg.extend_from_slice(&frame(2, &parts[0].2, &LenForm::NewMinimal).ok_or("frame")?);
            Ok(Signed { sigs: vec![], message: Some(msg), cleartext: None, text_mode: false, signers: vec![k, k2] })
        }
        _ => {
            let text = iface == "builder_text";
            let mut signers = vec![json!({"key": k.name, "hash": jstr(plan, "hash"), "subpackets": issuer})];
            let mut ks = vec![k];
            if iface == "builder_bin2" {
                let k2 = keys::get(if k.name == "ed25519-v6" { "ed25519-v4" } else { "ed25519-v6" });
                signers.push(json!({"key": k2.name, "hash": "sha512"}));
                ks.push(k2);
            }
            let cfg = json!({"source":"reader","file_name":"","data_mode":"binary","partial":512,"compression":"none","sign_text": text,
                "signers": signers, "enc": {"k":"none"}, "armor": false, "rng_key": ju64(plan, "rng_key")});
            let mut out = Vec::new();
            let (r, _) = workload::build(&cfg, workload::Source::Reader(src()), &mut rng, &mut out);
            r.map_err(e)?;
            Ok(Signed { sigs: vec![], message: Some(out), cleartext: None, text_mode: text, signers: ks })
        }
    }
}

// ------------------------------------------------------------------ verification entry points

/// literal packet carrying `content` (binary mode, no name, date 0)
fn literal_packet(content: &[u8]) -> Vec<u8> {
    let mut body = vec![b'b', 0, 0, 0, 0, 0];
    body.extend_from_slice(content);
    frame(11, &body, &LenForm::NewMinimal).unwrap()
}

/// every applicable verification of (sig over content); returns (entry point, accepted?) list
fn verify_detached(sig: &Signature, content: &[u8], key: &SignedPublicKey, sched: &Sched, through_armor: bool) -> Vec<(String, bool)> {
    let mut out = Vec::new();
    let d = DetachedSignature::new(sig.clone());
    out.push(("DetachedSignature::verify".to_string(), d.verify(key, content).is_ok()));
    let (src, _l) = SimReader::new(Arc::new(content.to_vec()), sched.clone(), vec![]);
    out.push(("Signature::verify(reader)".to_string(), sig.verify(key, src).is_ok()));
    // prefixed-signature message: Signature packet, then the literal
    if let Ok(sb) = sig.to_bytes() {
        let mut stream = frame(2, &sb, &LenForm::NewMinimal).unwrap();
        stream.extend_from_slice(&literal_packet(content));
        let ok = (|| -> Result<bool, String> {
            let (input, _l) = seams::sim_bufread(Arc::new(stream), sched.clone(), 8192, vec![]);
            let mut m = Message::from_bytes(input).map_err(|e| e.to_string())?;
            let (data, end) = seams::drain(&mut m, &Consumer::ReadToEnd, content.len() + 64);
            end.map_err(|e| e.to_string())?;
            if data != content {
                return Err("prefixed message content differs".into());
            }
            Ok(m.verify(key).is_ok())
        })();
        out.push(("Message(prefixed signature)::verify".to_string(), ok.unwrap_or(false)));
    }
    if through_armor {
        let ok = (|| -> Result<bool, String> {
            let a = d.to_armored_string(ArmorOptions::default()).map_err(|e| e.to_string())?;
            let a = a.replace('\n', "\r\n");
            let (d2, _) = DetachedSignature::from_string(&a).map_err(|e| e.to_string())?;
            Ok(d2.verify(key, content).is_ok())
        })();
        out.push(("armor->parse->DetachedSignature::verify".to_string(), ok.unwrap_or(false)));
    }
    out
}

fn verify_message(stream: &[u8], expect: &[u8], keys: &[&'static PoolKey], sched: &Sched, armored: bool) -> Vec<(String, bool)> {
    let named: Vec<(&str, &SignedPublicKey)> = keys.iter().map(|k| (k.name, &k.public)).collect();
    verify_message_pub(stream, expect, &named, sched, armored)
}

fn verify_message_pub(stream: &[u8], expect: &[u8], keys: &[(&str, &SignedPublicKey)], sched: &Sched, armored: bool) -> Vec<(String, bool)> {
    let mut out = Vec::new();
    let r = (|| -> Result<Vec<(String, bool)>, String> {
        let mut v = Vec::new();
        let bytes: Arc<Vec<u8>> = Arc::new(stream.to_vec());
        let (input, _l) = seams::sim_bufread(bytes.clone(), sched.clone(), 8192, vec![]);
        let mut m = if armored { Message::from_armor(input).map_err(|e| e.to_string())?.0 } else { Message::from_bytes(input).map_err(|e| e.to_string())? };
        let (data, end) = seams::drain(&mut m, &Consumer::ReadToEnd, expect.len() + 4096);
        end.map_err(|e| e.to_string())?;
        if data != expect {
            return Err("message content differs".into());
        }
        for (name, public) in keys {
            let any = (0..keys.len().max(3)).any(|i| m.verify_nested_explicit(i, *public).is_ok());
            v.push((format!("Message::verify_nested_explicit[{name}]"), any));
            let nested = m.verify_nested(&[*public]).map(|r| r.iter().all(|x| matches!(x, pgp::composed::VerificationResult::Valid(_)))).unwrap_or(false);
            v.push((format!("Message::verify_nested[{name}]"), nested));
        }
        v.push(("Message::verify".to_string(), keys.iter().any(|(_, public)| m.verify(*public).is_ok())));
        // verify_read on a fresh parse
        let (input, _l) = seams::sim_bufread(bytes, Sched::Full, 8192, vec![]);
        let mut m2 = if armored { Message::from_armor(input).map_err(|e| e.to_string())?.0 } else { Message::from_bytes(input).map_err(|e| e.to_string())? };
        v.push(("Message::verify_read".to_string(), keys.iter().any(|(_, public)| m2.verify_read(*public).is_ok())));
        Ok(v)
    })();
    match r {
        Ok(v) => out.extend(v),
        Err(e) => out.push((format!("Message(parse/read: {e})"), false)),
    }
    out
}

fn verify_cleartext(doc: &str, key: &SignedPublicKey) -> Vec<(String, bool)> {
    match CleartextSignedMessage::from_string(doc) {
        Err(e) => vec![(format!("CleartextSignedMessage::from_string({e})"), false)],
        Ok((m, _)) => {
            let mut v = vec![("CleartextSignedMessage::verify".to_string(), m.verify(key).is_ok())];
            let st = m.signed_text();
            v.push(("Signature::verify(signed_text)".to_string(), m.signatures().iter().any(|s| s.verify(key, st.as_bytes()).is_ok())));
            v
        }
    }
}

// ------------------------------------------------------------------ signature body field locator

#[derive(Debug, Default, Clone)]
struct SigFields {
    /// offsets (in the signature packet body) of octets that are covered by the signature
    hashed: Vec<usize>,
    /// offsets of the signature value octets (without MPI bit-count prefixes)
    value: Vec<usize>,
    salt: Vec<usize>,
}

fn locate_sig_fields(body: &[u8]) -> Option<SigFields> {
    let mut f = SigFields::default();
    let ver = *body.first()?;
    if ver != 4 && ver != 6 {
        return None;
    }
    let lw = if ver == 6 { 4 } else { 2 };
    let rd = |at: usize| -> Option<usize> {
        let s = body.get(at..at + lw)?;
        Some(s.iter().fold(0usize, |a, b| (a << 8) | *b as usize))
    };
    let hl = rd(4)?;
    let hashed_end = 4 + lw + hl;
    f.hashed.extend(0..hashed_end.min(body.len()));
    let ul = rd(hashed_end)?;
    let mut at = hashed_end + lw + ul + 2; // skip unhashed area and the 16-bit hash prefix
    if ver == 6 {
        let sl = *body.get(at)? as usize;
        f.salt.extend(at + 1..at + 1 + sl);
        at += 1 + sl;
    }
    let alg = body[2];
    if alg == 27 || alg == 28 {
        f.value.extend(at..body.len());
    } else {
        while at + 2 <= body.len() {
            let bits = ((body[at] as usize) << 8) | body[at + 1] as usize;
            let n = bits.div_ceil(8);
            f.value.extend(at + 2..(at + 2 + n).min(body.len()));
            at += 2 + n;
        }
    }
    Some(f)
}

fn parse_sig(body: &[u8]) -> Option<Signature> {
    let stream = frame(2, body, &LenForm::NewMinimal)?;
    match PacketParser::new(&stream[..]).next()? {
        Ok(Packet::Signature(s)) => Some(s),
        _ => None,
    }
}

// ------------------------------------------------------------------ run (data signatures)

fn other_keys(k: &PoolKey) -> Vec<&'static PoolKey> {
    let mut v = Vec::new();
    let cand = match k.name {
        "ed25519-v4" | "ed25519-v4-locked" | "edlegacy-v4" => vec!["outsider-v4", "ed25519-v6", "ed25519-v4-locked", "edlegacy-v4"],
        "ed25519-v6" | "ed25519-v6-locked" => vec!["outsider-v6", "ed25519-v4", "ed25519-v6-locked"],
        "p256-v4" => vec!["outsider-p256", "ed25519-v4"],
        _ => vec!["outsider-v4", "outsider-v6"],
    };
    for c in cand {
        if c != k.name {
            v.push(keys::get(c));
        }
    }
    v
}

fn run_data(plan: &Value, rec: &mut Rec) {
    let content = Arc::new(payload_from_json(&plan["payload"]));
    let sound = jstr(plan, "mode") == "sound";
    let iface = jstr(plan, "iface").to_string();
    let sched = Sched::from_json(&plan["src_sched"]);
    let signed = match guard(|| sign_with(plan, &content)) {
        Err(p) => {
            rec.eval(0, false);
            rec.violation("panic", &norm_loc(&p.loc), format!("signing panicked ({iface}): {}", p.msg), plan.clone());
            return;
        }
        Ok(Err(e)) => {
            rec.count(&format!("skip:sign:{iface}:{}", &e[..e.len().min(30)]));
            return;
        }
        Ok(Ok(s)) => s,
    };
    let k = signed.signers[0];
    let mut h = Fnv::default();
    h.str(&iface);
    h.str(k.name);
    h.bytes(&content);
    let interesting = content.iter().any(|b| matches!(b, b'\r' | b'\n' | b' ' | b'\t' | b'-'));
    rec.count(&format!("iface:{iface}"));
    rec.sample(json!({"iface": iface, "key": k.name, "payload": String::from_utf8_lossy(&content).replace('\r', "\\r").replace('\n', "\\n"), "mode": jstr(plan, "mode")}));

    // the content as the verifier should see it for cleartext (trailing blanks are not part of it)
    if !sound {
        rec.eval(h.0, interesting);
        let r = guard(|| {
            let mut res: Vec<(String, bool)> = Vec::new();
            for s in &signed.sigs {
                if signed.cleartext.is_none() {
                    res.extend(verify_detached(s, &content, &k.public, &sched, true));
                    if signed.text_mode {
                        // documented equivalence: LF <-> CRLF
                        let c = canon(&content);
                        res.extend(verify_detached(s, &c, &k.public, &Sched::Full, false).into_iter().map(|(n, ok)| (format!("{n} over CRLF form"), ok)));
                    }
                }
            }
            if let Some(m) = &signed.message {
                res.extend(verify_message(m, &content, &signed.signers, &sched, false));
                // extraction: the embedded signature used as a detached one
                if let Ok(mut msg) = Message::from_bytes(&m[..]) {
                    let _ = seams::drain(&mut msg, &Consumer::ReadToEnd, content.len() + 64);
                    for (i, key) in signed.signers.iter().enumerate() {
                        for j in 0..signed.signers.len() {
                            if let Ok(sig) = msg.verify_nested_explicit(j, &key.public) {
                                res.push((format!("embedded signature {i} as detached"), DetachedSignature::new(sig.clone()).verify(&key.public, &content).is_ok()));
                            }
                        }
                    }
                }
                // armored transport
                let mut armored = Vec::new();
                if pgp::armor::write(&crate::checks::c09b::RawBytes(m.clone()), pgp::armor::BlockType::Message, &mut armored, None, true).is_ok() {
                    let t = String::from_utf8_lossy(&armored).replace('\n', "\r\n").into_bytes();
                    res.extend(verify_message(&t, &content, &signed.signers, &Sched::Full, true).into_iter().map(|(n, ok)| (format!("armored {n}"), ok)));
                }
            }
            if let Some(doc) = &signed.cleartext {
                res.extend(verify_cleartext(doc, &k.public));
                // (transport rewrites of the cleartext body are judged by C16's symmetric oracle, not here)
            }
            res
        });
        match r {
            Err(p) => rec.violation("panic", &norm_loc(&p.loc), format!("verification panicked ({iface}): {}", p.msg), plan.clone()),
            Ok(res) => {
                for (entry, ok) in res {
                    rec.count("entry-points-evaluated");
                    if !ok {
                        // name the feature of the payload that the failing case has, so that different
                        // causes are different (class, site) pairs
                        let cause = if content.last() == Some(&b'\r') {
                            " [text ends in a lone CR]"
                        } else if content.split(|b| *b == b'\n').any(|l| matches!(l.strip_suffix(b"\r").unwrap_or(l).last(), Some(b' ' | b'\t'))) {
                            " [a line has trailing blanks]"
                        } else {
                            ""
                        };
                        rec.violation(
                            "own-signature-rejected",
                            &format!("{iface} -> {}{cause}", entry.split('(').next().unwrap_or(&entry).split('[').next().unwrap_or(&entry)),
                            format!("signature made through {iface} with {} over {:?} is not accepted by {entry}", k.name, String::from_utf8_lossy(&content)),
                            plan.clone(),
                        );
                        break;
                    }
                }
            }
        }
        return;
    }

    // ---------------- soundness: mutations
    let only = plan.get("only").cloned();
    let mut muts: Vec<Value> = Vec::new();
    if let Some(o) = only {
        muts.push(o);
    } else {
        let n = content.len();
        let bits: Vec<usize> = if n <= 40 {
            (0..n * 8).collect()
        } else if jbool(plan, "boundary") {
            (0..24).map(|i| (i * 7919 + ju64(plan, "pick") as usize) % (n * 8)).chain((n * 8 - 16)..n * 8).collect()
        } else {
            (0..160).map(|i| (i * 7919 + ju64(plan, "pick") as usize) % (n * 8)).collect()
        };
        for b in bits {
            muts.push(json!({"m":"content_flip","bit":b}));
        }
        for t in [0usize, 1, n / 2, n.saturating_sub(1)] {
            if t < n {
                muts.push(json!({"m":"content_trunc","at":t}));
            }
        }
        for b in [b"a".as_slice(), b"\n", b"\r", b" ", b"\0"] {
            muts.push(json!({"m":"content_append","hex": hex::encode(b)}));
            muts.push(json!({"m":"content_prepend","hex": hex::encode(b)}));
        }
        for i in 0..signed.sigs.len().max(signed.signers.len()) {
            muts.push(json!({"m":"sig_fields","sig":i}));
        }
        muts.push(json!({"m":"key_subst"}));
        muts.push(json!({"m":"key_fields"}));
        if jstr(plan, "iface") == "builder_mixed" {
            muts.push(json!({"m":"content_lf"}));
        }
        if signed.message.is_some() {
            muts.push(json!({"m":"ops_fields"}));
            for what in ["literal", "whole-message", "last-signature", "one-pass-and-literal"] {
                muts.push(json!({"m":"msg_extend","what":what}));
            }
        }
    }
    for m in muts {
        run_data_mutation(plan, rec, &signed, &content, &m, h.0);
    }
}

fn apply_content_mut(content: &[u8], m: &Value) -> Option<Vec<u8>> {
    let mut c = content.to_vec();
    match jstr(m, "m") {
        "content_flip" => {
            let b = jusize(m, "bit");
            if b / 8 >= c.len() {
                return None;
            }
            c[b / 8] ^= 1 << (b % 8);
        }
        "content_trunc" => c.truncate(jusize(m, "at")),
        "content_append" => c.extend_from_slice(&hex::decode(jstr(m, "hex")).ok()?),
        "content_prepend" => {
            let mut n = hex::decode(jstr(m, "hex")).ok()?;
            n.extend_from_slice(&c);
            c = n;
        }
        _ => return None,
    }
    Some(c)
}

/// the signed form the cleartext framework defines (reference model, independent of rpgp)
pub fn csf_signed_form(text: &[u8]) -> Vec<u8> {
    // split into lines on LF, strip one trailing CR, strip trailing SP/TAB, join with CRLF
    let mut out = Vec::new();
    let pieces: Vec<&[u8]> = text.split(|b| *b == b'\n').collect();
    let n = pieces.len();
    for (i, line) in pieces.into_iter().enumerate() {
        if i > 0 {
            out.extend_from_slice(b"\r\n");
        }
        // a CR directly before the LF belongs to the line ending; the last piece has no LF after it
        let l = if i + 1 < n { line.strip_suffix(b"\r").unwrap_or(line) } else { line };
        let mut end = l.len();
        while end > 0 && (l[end - 1] == b' ' || l[end - 1] == b'\t') {
            end -= 1;
        }
        out.extend_from_slice(&l[..end]);
    }
    out
}

fn run_data_mutation(plan: &Value, rec: &mut Rec, signed: &Signed, content: &Arc<Vec<u8>>, m: &Value, shape: u64) {
    let k = signed.signers[0];
    let kind = jstr(m, "m").to_string();
    let iface = jstr(plan, "iface");
    let mut vplan = plan.clone();
    vplan["only"] = m.clone();
    let mut accepted: Vec<String> = Vec::new();
    let mut evals = 0u64;
    let r = guard(|| {
        match kind.as_str() {
            "content_flip" | "content_trunc" | "content_append" | "content_prepend" => {
                let Some(c2) = apply_content_mut(content, m) else { return };
                if c2 == **content {
                    return;
                }
                if (signed.text_mode || iface == "builder_mixed") && signed.cleartext.is_none() && canon(&c2) == canon(content) {
                    return; // documented equivalence (for the mixed message: of its text-mode signer)
                }
                evals += 1;
                for s in &signed.sigs {
                    if signed.cleartext.is_none() {
                        accepted.extend(verify_detached(s, &c2, &k.public, &Sched::Full, false).into_iter().filter(|x| x.1).map(|x| x.0));
                    }
                }
                if let Some(msg) = &signed.message {
                    // replace the literal's data inside the message
                    if let Ok(pk) = deframe(msg) {
                        if let Some(li) = pk.iter().position(|p| p.tag == 11) {
                            let hdr_len = 2 + pk[li].body.get(1).copied().unwrap_or(0) as usize + 4;
                            let mut body = pk[li].body[..hdr_len.min(pk[li].body.len())].to_vec();
                            body.extend_from_slice(&c2);
                            let rebuilt = rebuild(&pk, li, &body);
                            accepted.extend(verify_message(&rebuilt, &c2, &signed.signers, &Sched::Full, false).into_iter().filter(|x| x.1).map(|x| x.0));
                        }
                    }
                }
                if let Some(doc) = &signed.cleartext {
                    // edit the cleartext body of the armored document
                    let Ok(t2) = String::from_utf8(c2.clone()) else { return };
                    if csf_signed_form(t2.as_bytes()) == csf_signed_form(content) {
                        return; // same signed form: the signature legitimately still covers it
                    }
                    let Some(sep) = doc.find("\n\n") else { return };
                    let Some(end) = doc.find("-----BEGIN PGP SIGNATURE-----") else { return };
                    // the channel's document: the new text, dash-escaped, followed by the line ending
                    // that terminates the cleartext (CR+LF when the text itself ends in CR, see the
                    // cleartext model in c16) - so that the reader parses exactly the text t2
                    let escaped: String = t2.split_inclusive('\n').map(|l| if l.starts_with('-') { format!("- {l}") } else { l.to_string() }).collect();
                    let term = if t2.ends_with('\r') { "\r\n" } else { "\n" };
                    let doc2 = format!("{}{}{}{}", &doc[..sep + 2], escaped, term, &doc[end..]);
                    accepted.extend(verify_cleartext(&doc2, &k.public).into_iter().filter(|x| x.1).map(|x| x.0));
                }
            }
            "sig_fields" => {
                let idx = jusize(m, "sig");
                // obtain the signature packet body: detached sig, or the idx-th signature packet of the message
                let (body, msg_ctx): (Vec<u8>, Option<(Vec<Pkt>, usize)>) = if let Some(s) = signed.sigs.get(idx) {
                    match s.to_bytes() {
                        Ok(b) => (b, None),
                        Err(_) => return,
                    }
                } else if let Some(msg) = &signed.message {
                    let Ok(pk) = deframe(msg) else { return };
                    let sig_idx: Vec<usize> = pk.iter().enumerate().filter(|(_, p)| p.tag == 2).map(|(i, _)| i).collect();
                    let Some(&pi) = sig_idx.get(idx) else { return };
                    (pk[pi].body.clone(), Some((pk, pi)))
                } else {
                    return;
                };
                let Some(fields) = locate_sig_fields(&body) else { return };
                let only_bit = m.get("off").and_then(|x| x.as_u64()).map(|o| (o as usize, jusize(m, "bit")));
                let mut targets: Vec<(usize, usize)> = Vec::new();
                if let Some(t) = only_bit {
                    targets.push(t);
                } else {
                    for &o in fields.hashed.iter().chain(fields.salt.iter()) {
                        for b in 0..8 {
                            targets.push((o, b));
                        }
                    }
                    // signature value octets: all bits for short values, sampled for long (RSA)
                    let step = (fields.value.len() / 70).max(1);
                    for &o in fields.value.iter().step_by(step) {
                        for b in [0usize, 3, 7] {
                            targets.push((o, b));
                        }
                    }
                }
                for (o, b) in targets {
                    let mut b2 = body.clone();
                    if o >= b2.len() {
                        continue;
                    }
                    b2[o] ^= 1 << b;
                    evals += 1;
                    let mut acc: Vec<String> = Vec::new();
                    match &msg_ctx {
                        None => {
                            let Some(s2) = parse_sig(&b2) else { continue };
                            if signed.cleartext.is_some() {
                                let st = csf_signed_form(content);
                                if s2.verify(&k.public, &st[..]).is_ok() {
                                    acc.push("Signature::verify(signed_text)".into());
                                }
                            } else {
                                acc.extend(verify_detached(&s2, content, &k.public, &Sched::Full, false).into_iter().filter(|x| x.1).map(|x| x.0));
                            }
                        }
                        Some((pk, pi)) => {
                            let rebuilt = rebuild(pk, *pi, &b2);
                            // only the signer whose signature was damaged must fail; find which signers still verify
                            let res = verify_message(&rebuilt, content, &signed.signers, &Sched::Full, false);
                            // number of distinct signers still valid must drop by one
                            let still: usize = signed.signers.iter().filter(|kk| res.iter().any(|(n, ok)| *ok && n == &format!("Message::verify_nested_explicit[{}]", kk.name))).count();
                            if still >= signed.signers.len() {
                                acc.push(format!("all {} signers still verify after damaging signature packet #{idx}", signed.signers.len()));
                            }
                        }
                    }
                    if !acc.is_empty() {
                        accepted.push(format!("flip of bit {b} at signature-body offset {o} ({}): {}", field_name(&fields, o), acc.join(", ")));
                        let mut mm = m.clone();
                        mm["off"] = json!(o);
                        mm["bit"] = json!(b);
                        vplan["only"] = mm;
                        break;
                    }
                }
            }
            "key_subst" => {
                for ok in other_keys(k) {
                    evals += 1;
                    for s in &signed.sigs {
                        if signed.cleartext.is_none() {
                            accepted.extend(verify_detached(s, content, &ok.public, &Sched::Full, false).into_iter().filter(|x| x.1).map(|x| format!("{} under key {}", x.0, ok.name)));
                        }
                    }
                    if let Some(msg) = &signed.message {
                        let others = [ok];
                        if !signed.signers.iter().any(|s| s.name == ok.name) {
                            // the batch entry point with the unrelated key in front of / behind the signers
                            if let Ok(mut m) = Message::from_bytes(&msg[..]) {
                                let (_, end) = seams::drain(&mut m, &Consumer::ReadToEnd, content.len() + 4096);
                                if end.is_ok() {
                                    for front in [true, false] {
                                        let mut ks: Vec<&dyn pgp::types::VerifyingKey> = signed.signers.iter().map(|s| &s.public as &dyn pgp::types::VerifyingKey).collect();
                                        let at = if front { 0 } else { ks.len() };
                                        ks.insert(at, &ok.public);
                                        if let Ok(res) = m.verify_nested(&ks) {
                                            if matches!(res.get(at), Some(pgp::composed::VerificationResult::Valid(_))) {
                                                accepted.push(format!("Message::verify_nested reports the key {} (position {at} of {}), which signed nothing, as valid", ok.name, ks.len()));
                                            }
                                        }
                                    }
                                }
                            }
                            accepted.extend(verify_message(msg, content, &others, &Sched::Full, false).into_iter().filter(|x| x.1).map(|x| format!("{} under key {}", x.0, ok.name)));
                        }
                    }
                    if let Some(doc) = &signed.cleartext {
                        accepted.extend(verify_cleartext(doc, &ok.public).into_iter().filter(|x| x.1).map(|x| format!("{} under key {}", x.0, ok.name)));
                    }
                    // the signer's own encryption subkey
                    if let Some(sub) = k.public.public_subkeys.first() {
                        for s in &signed.sigs {
                            if s.verify(sub, &content[..]).is_ok() {
                                accepted.push("Signature::verify under the encryption subkey".into());
                            }
                        }
                    }
                }
            }
            "content_lf" => {
                // CR LF -> LF: the text-mode signature is invariant under it, the binary-mode one is not
                let Some(msg) = &signed.message else { return };
                let c2: Vec<u8> = String::from_utf8_lossy(content).replace("\r\n", "\n").into_bytes();
                if c2 == **content || signed.signers.len() < 2 {
                    return;
                }
                let Ok(pk) = deframe(msg) else { return };
                let Some(li) = pk.iter().position(|p| p.tag == 11) else { return };
                let hdr_len = 2 + pk[li].body.get(1).copied().unwrap_or(0) as usize + 4;
                let mut body = pk[li].body[..hdr_len.min(pk[li].body.len())].to_vec();
                body.extend_from_slice(&c2);
                let rebuilt = rebuild(&pk, li, &body);
                evals += 1;
                let binary_signer = signed.signers[1];
                accepted.extend(
                    verify_message_pub(&rebuilt, &c2, &[(binary_signer.name, &binary_signer.public)], &Sched::Full, false)
                        .into_iter()
                        .filter(|x| x.1)
                        .map(|x| format!("{} (the binary-mode signature of {}, after converting the line endings of the content)", x.0, binary_signer.name)),
                );
            }
            "key_fields" => {
                // (c) the verifying key: single-bit flips in the key material of the primary public key packet.
                // (Flips in the creation time leave the material alone: the result is the same cryptographic
                // key under another fingerprint.  rpgp's Signature::verify refuses it when the signature names
                // its issuer, Message::verify* does not look at issuer subpackets at all - neither is demanded
                // by the property, which is about another *key*, so those flips are not part of the oracle.)
                let Ok(cert) = k.public.to_bytes() else { return };
                let Ok(pk) = deframe(&cert) else { return };
                let Some(p0) = pk.first().filter(|p| p.tag == 6) else { return };
                let nbits = p0.body.len() * 8;
                let bits: Vec<usize> = (0..24).map(|i| 48 + (i * 7919 + ju64(plan, "pick") as usize) % (nbits - 48)).collect();
                for bit in bits {
                    let mut body = p0.body.clone();
                    body[bit / 8] ^= 1 << (bit % 8);
                    let stream = rebuild(&pk, 0, &body);
                    let Ok(variant) = SignedPublicKey::from_bytes(&stream[..]) else { continue };
                    if variant.primary_key.public_params() == k.public.primary_key.public_params() {
                        continue; // (a flip the parser normalizes away)
                    }
                    evals += 1;
                    let what = "key material";
                    for s in &signed.sigs {
                        if signed.cleartext.is_none() {
                            accepted.extend(verify_detached(s, content, &variant, &Sched::Full, false).into_iter().filter(|x| x.1).map(|x| format!("{} under the signer's key with bit {bit} ({what}) flipped", x.0)));
                        }
                    }
                    if let Some(msg) = &signed.message {
                        if signed.signers.len() == 1 {
                            accepted.extend(verify_message_pub(msg, content, &[("variant", &variant)], &Sched::Full, false).into_iter().filter(|x| x.1).map(|x| format!("{} under the signer's key with bit {bit} ({what}) flipped", x.0)));
                        }
                    }
                    if let Some(doc) = &signed.cleartext {
                        accepted.extend(verify_cleartext(doc, &variant).into_iter().filter(|x| x.1).map(|x| format!("{} under the signer's key with bit {bit} ({what}) flipped", x.0)));
                    }
                }
            }
            "msg_extend" => {
                // packets appended behind the complete signed message (not padding / marker, which readers skip)
                let Some(msg) = &signed.message else { return };
                let Ok(pk) = deframe(msg) else { return };
                let mut ext = msg.clone();
                match jstr(m, "what") {
                    "literal" => ext.extend_from_slice(&literal_packet(b"appended by the channel")),
                    "whole-message" => ext.extend_from_slice(msg),
                    "last-signature" => {
                        let Some(p) = pk.iter().rev().find(|p| p.tag == 2) else { return };
                        ext.extend_from_slice(&msg[p.start..p.end]);
                    }
                    _ => {
                        let Some(p) = pk.iter().find(|p| p.tag == 4) else { return };
                        ext.extend_from_slice(&msg[p.start..p.end]);
                        ext.extend_from_slice(&literal_packet(b"appended by the channel"));
                    }
                }
                evals += 1;
                accepted.extend(verify_message(&ext, content, &signed.signers, &Sched::Full, false).into_iter().filter(|x| x.1).map(|x| format!("{} ({} signers)", x.0, signed.signers.len())));
            }
            "ops_fields" => {
                let Some(msg) = &signed.message else { return };
                let Ok(pk) = deframe(msg) else { return };
                for (pi, p) in pk.iter().enumerate().filter(|(_, p)| p.tag == 4) {
                    // OPS v3: ver, type, hash, pkalg, keyid(8), nested; v6: ver, type, hash, pkalg, saltlen, salt, fp(32), nested
                    let mut offs = vec![2usize];
                    if p.body.first() == Some(&6) {
                        let sl = p.body.get(4).copied().unwrap_or(0) as usize;
                        offs.extend(5..5 + sl);
                    }
                    for o in offs {
                        for b in 0..8 {
                            let mut b2 = p.body.clone();
                            if o >= b2.len() {
                                continue;
                            }
                            b2[o] ^= 1 << b;
                            evals += 1;
                            let rebuilt = rebuild(&pk, pi, &b2);
                            let res = verify_message(&rebuilt, content, &signed.signers, &Sched::Full, false);
                            let still: usize = signed.signers.iter().filter(|kk| res.iter().any(|(n, ok)| *ok && n == &format!("Message::verify_nested_explicit[{}]", kk.name))).count();
                            if still >= signed.signers.len() {
                                accepted.push(format!("one-pass packet #{pi} offset {o} bit {b} flipped, all signers still verify"));
                            }
                        }
                    }
                }
            }
            _ => {}
        }
    });
    let mut h = Fnv(shape);
    h.str(&m.to_string());
    for i in 0..evals.max(1) {
        rec.eval(h.0 ^ i.wrapping_mul(0x9E3779B97F4A7C15), evals > 0);
    }
    if evals > 0 {
        rec.count(&format!("fault:F-{kind}"));
    }
    match r {
        Err(p) => rec.violation("panic", &norm_loc(&p.loc), format!("verification panicked on a damaged object ({kind}): {}", p.msg), vplan),
        Ok(()) => {
            if let Some(a) = accepted.first() {
                rec.violation(
                    "forged-accepted",
                    &format!("{iface}:{kind}"),
                    format!("after {m} the signature (made with {}) is still accepted: {a}", k.name),
                    vplan,
                );
            }
        }
    }
}

fn field_name(f: &SigFields, o: usize) -> &'static str {
    if f.salt.contains(&o) {
        "salt"
    } else if f.value.contains(&o) {
        "signature value"
    } else {
        match o {
            0 => "version",
            1 => "signature type",
            2 => "public-key algorithm",
            3 => "hash algorithm",
            4..=7 => "hashed-area length / hashed subpackets",
            _ => "hashed subpacket area",
        }
    }
}

fn rebuild(pk: &[Pkt], replace: usize, body: &[u8]) -> Vec<u8> {
    let mut out = Vec::new();
    for (i, p) in pk.iter().enumerate() {
        let b: &[u8] = if i == replace { body } else { &p.body };
        out.extend_from_slice(&frame(p.tag, b, &LenForm::NewMinimal).unwrap());
    }
    out
}

// ------------------------------------------------------------------ certificate-forming signatures

const CERT_KINDS: [&str; 7] = ["self_cert", "self_subkey", "third_party_cert", "subkey_binding", "primary_binding", "direct_key", "key_revocation"];

fn gen_cert_complete(ctx: &GenCtx) -> Vec<Value> {
    let n = ctx.n(2500, 50_000);
    (0..n)
        .map(|j| {
            let mut p = Planner::new(ctx.seed, "c06.cert", j as u64);
            let kind = if p.chance(1, 8) { "attr_cert" } else { *p.pick(&CERT_KINDS) };
            json!({"mode":"complete","kind": kind, "key": *p.pick(&SIGN_KEYS), "other": *p.pick(&["ed25519-v4","ed25519-v6","p256-v4","outsider-v4"]),
                   "uid": format!("User {} <u{}@example.org>", p.below(1000), p.below(10)), "rng_key": p.u64(),
                   "attr_form": *p.pick(&["min", "two", "five", "five"]), "attr_len": *p.pick(&[1usize, 20, 170, 175, 176, 177, 300, 5000])})
        })
        .collect()
}

fn gen_cert_sound(ctx: &GenCtx) -> Vec<Value> {
    let n = ctx.n(600, 12_000);
    (0..n)
        .map(|j| {
            let mut p = Planner::new(ctx.seed, "c02.cert", j as u64);
            let key = if p.chance(2, 3) { *p.pick(&["ed25519-v4", "ed25519-v6"]) } else { *p.pick(&SIGN_KEYS) };
            json!({"mode":"sound","kind": *p.pick(&CERT_KINDS), "key": key, "other": *p.pick(&["ed25519-v4","ed25519-v6","p256-v4","outsider-v4"]),
                   "uid": format!("User {} <u{}@example.org>", p.below(1000), p.below(10)), "rng_key": p.u64()})
        })
        .collect()
}

/// A certificate-forming signature together with a closure-free description of how to verify it.
struct CertSig {
    sig: Signature,
    /// verify(sig, tamper) -> accepted?  `tamper` selects a damaged *signed object*
    kind: String,
    uid: pgp::packet::UserId,
}

fn cert_verify(cs: &CertSig, sig: &Signature, k: &PoolKey, other: &PoolKey, tamper: &str) -> bool {
    let primary = &k.public.primary_key;
    let sub = &k.public.public_subkeys[0].key;
    let wrong_uid = pgp::packet::UserId::from_str(Default::default(), "Mallory <m@example.org>").unwrap();
    let uid = if tamper == "uid" { &wrong_uid } else { &cs.uid };
    match cs.kind.as_str() {
        "self_cert" => {
            let signer = if tamper == "key" { &other.public.primary_key } else { primary };
            sig.verify_certification(signer, Tag::UserId, uid).is_ok()
        }
        "third_party_cert" => {
            // `other` certifies `k`'s user id
            let signee = if tamper == "key" { &k.public.public_subkeys[0].key.clone() as &dyn AnyKey } else { primary as &dyn AnyKey };
            let _ = signee;
            if tamper == "key" {
                sig.verify_third_party_certification(sub, &other.public.primary_key, Tag::UserId, uid).is_ok()
            } else {
                sig.verify_third_party_certification(primary, &other.public.primary_key, Tag::UserId, uid).is_ok()
            }
        }
        "self_subkey" | "subkey_binding" => {
            if tamper == "key" {
                sig.verify_subkey_binding(primary, &other.public.public_subkeys[0].key).is_ok() || sig.verify_subkey_binding(&other.public.primary_key, sub).is_ok()
            } else {
                sig.verify_subkey_binding(primary, sub).is_ok()
            }
        }
        "primary_binding" => {
            // made by the (signing-capable) primary of `other` acting as a subkey-like signer over k's primary
            if tamper == "key" {
                sig.verify_primary_key_binding(&other.public.primary_key, sub).is_ok()
            } else {
                sig.verify_primary_key_binding(&other.public.primary_key, primary).is_ok()
            }
        }
        _ => {
            if tamper == "key" {
                sig.verify_key(&other.public.primary_key).is_ok()
            } else {
                sig.verify_key(primary).is_ok()
            }
        }
    }
}

fn cert_shape(c: &SignedPublicKey) -> Vec<usize> {
    let mut v = vec![c.details.users.len(), c.details.user_attributes.len(), c.details.direct_signatures.len(), c.details.revocation_signatures.len(), c.public_subkeys.len()];
    v.extend(c.details.users.iter().map(|u| u.signatures.len()));
    v.extend(c.details.user_attributes.iter().map(|u| u.signatures.len()));
    v.extend(c.public_subkeys.iter().map(|u| u.signatures.len()));
    v
}

trait AnyKey {}
impl<T> AnyKey for T {}

fn make_cert_sig(plan: &Value, k: &'static PoolKey, other: &'static PoolKey) -> Result<CertSig, String> {
    let kind = jstr(plan, "kind").to_string();
    let mut rng = SimRng::new(ju64(plan, "rng_key"), "cert", false);
    let e = |e: pgp::errors::Error| e.to_string();
    let uid = pgp::packet::UserId::from_str(Default::default(), jstr(plan, "uid")).map_err(e)?;
    let pw = Password::from(k.password);
    let opw = Password::from(other.password);
    let mk = |rng: &mut SimRng, signer: &PoolKey, typ: SignatureType| -> Result<SignatureConfig, String> {
        let mut c = SignatureConfig::from_key(rng, &*signer.secret, typ).map_err(|e| e.to_string())?;
        c.hashed_subpackets = vec![
            Subpacket::regular(SubpacketData::SignatureCreationTime(Timestamp::now())).map_err(|e| e.to_string())?,
            Subpacket::regular(SubpacketData::IssuerFingerprint(signer.secret.fingerprint())).map_err(|e| e.to_string())?,
        ];
        Ok(c)
    };
    let primary = &k.public.primary_key;
    let sub = &k.public.public_subkeys[0].key;
    let sig = match kind.as_str() {
        "self_cert" => {
            // the self-certification rpgp's key generation made
            let u = k.public.details.users.first().ok_or("no user")?;
            return Ok(CertSig { sig: u.signatures.first().ok_or("no sig")?.clone(), kind, uid: u.id.clone() });
        }
        "self_subkey" => k.public.public_subkeys[0].signatures.first().ok_or("no binding")?.clone(),
        "third_party_cert" => mk(&mut rng, other, SignatureType::CertGeneric)?.sign_certification_third_party(&*other.secret, &opw, primary, Tag::UserId, &uid).map_err(e)?,
        "subkey_binding" => mk(&mut rng, k, SignatureType::SubkeyBinding)?.sign_subkey_binding(&*k.secret, primary, &pw, sub).map_err(e)?,
        "primary_binding" => mk(&mut rng, other, SignatureType::KeyBinding)?.sign_primary_key_binding(&*other.secret, &other.public.primary_key, &opw, primary).map_err(e)?,
        "direct_key" => mk(&mut rng, k, SignatureType::Key)?.sign_key(&*k.secret, &pw, primary).map_err(e)?,
        _ => mk(&mut rng, k, SignatureType::KeyRevocation)?.sign_key(&*k.secret, &pw, primary).map_err(e)?,
    };
    Ok(CertSig { sig, kind, uid })
}

/// A user attribute parsed from the wire, with the length of its (single) subpacket written in the
/// form `form`: "min" as rpgp writes it, "two" (two-octet form for lengths 192..), "five" (0xFF + 4 octets).
fn attribute_from_wire(form: &str, image_len: usize) -> Option<pgp::packet::UserAttribute> {
    use pgp::packet::{Packet, PacketParser};
    let img: Vec<u8> = (0..image_len as u32).map(|i| (i * 11 + 3) as u8).collect();
    let ua = pgp::packet::UserAttribute::new_image(img.into()).ok()?;
    let body = ua.to_bytes().ok()?;
    // body = <subpacket length><type octet><data>; decode the minimal length rpgp wrote
    let (len, used) = match *body.first()? {
        b @ 0..=191 => (b as usize, 1),
        b @ 192..=254 => (((b as usize - 192) << 8) + *body.get(1)? as usize + 192, 2),
        _ => (u32::from_be_bytes(body.get(1..5)?.try_into().ok()?) as usize, 5),
    };
    let rest = body.get(used..)?;
    if rest.len() != len {
        return None;
    }
    let mut b2 = match form {
        "five" => {
            let mut v = vec![0xFFu8];
            v.extend_from_slice(&(len as u32).to_be_bytes());
            v
        }
        "two" if len >= 192 => vec![((len - 192) >> 8) as u8 + 192, ((len - 192) & 0xFF) as u8],
        _ => body[..used].to_vec(),
    };
    b2.extend_from_slice(rest);
    let stream = frame(17, &b2, &LenForm::NewMinimal)?;
    match PacketParser::new(&stream[..]).next()? {
        Ok(Packet::UserAttribute(ua)) => Some(ua),
        _ => None,
    }
}

/// completeness of user attribute certifications (self and third party), the attribute coming from the wire
fn run_attr_cert(plan: &Value, rec: &mut Rec, k: &'static PoolKey, other: &'static PoolKey) {
    let form = jstr(plan, "attr_form");
    let image_len = jusize(plan, "attr_len");
    let Some(ua) = attribute_from_wire(form, image_len) else {
        rec.count("skip:attribute-from-wire");
        return;
    };
    let mut h = Fnv::default();
    h.str("attr_cert");
    h.str(k.name);
    h.str(other.name);
    h.str(form);
    h.u64(image_len as u64);
    rec.eval(h.0, true);
    rec.count(&format!("kind:attr_cert:{form}"));
    rec.sample(json!({"kind": "attr_cert", "key": k.name, "other": other.name, "length_form": form, "image_len": image_len}));
    let r = guard(|| -> Result<(bool, bool, bool), String> {
        let mut rng = SimRng::new(ju64(plan, "rng_key"), "attrcert", false);
        let own = ua.sign(&mut rng, &*k.secret, &k.public.primary_key, &Password::from(k.password)).map_err(|e| e.to_string())?;
        let third = ua
            .sign_third_party(&mut rng, &*other.secret, &Password::from(other.password), &k.public.primary_key, SignatureType::CertGeneric)
            .map_err(|e| e.to_string())?;
        let own_ok = own.verify_bindings(&k.public.primary_key).is_ok();
        let third_ok = third.verify_third_party(&k.public.primary_key, &other.public.primary_key).is_ok();
        // and as part of a certificate that went over the wire
        let mut cert = k.public.clone();
        cert.details.user_attributes.push(own);
        let wire = cert.to_bytes().map_err(|e| e.to_string())?;
        let back = SignedPublicKey::from_bytes(&wire[..]).map_err(|e| e.to_string())?;
        let cert_ok = back.details.user_attributes.len() == cert.details.user_attributes.len() && back.verify_bindings().is_ok();
        Ok((own_ok, third_ok, cert_ok))
    });
    match r {
        Err(p) => rec.violation("panic", &norm_loc(&p.loc), format!("certifying a user attribute panicked: {}", p.msg), plan.clone()),
        Ok(Err(e)) => rec.count(&format!("skip:attr-cert:{}", &e[..e.len().min(40)])),
        Ok(Ok((own_ok, third_ok, cert_ok))) => {
            if !own_ok || !third_ok || !cert_ok {
                rec.violation(
                    "own-signature-rejected",
                    "cert:attr_cert",
                    format!("certification of a user attribute read from the wire (subpacket length in {form} form, {image_len} image octets) by {}: self-certification accepted={own_ok}, third-party certification by {} accepted={third_ok}, certificate carrying it passes verify_bindings after a wire round trip={cert_ok}", k.name, other.name),
                    plan.clone(),
                );
            }
        }
    }
}

fn run_cert(plan: &Value, rec: &mut Rec) {
    let k = keys::get(jstr(plan, "key"));
    let other = keys::get(jstr(plan, "other"));
    let kind = jstr(plan, "kind").to_string();
    if other.name == k.name || (kind == "primary_binding" && other.v6 != k.v6) {
        rec.count("skip:same-or-mixed-version-keys");
        return;
    }
    let sound = jstr(plan, "mode") == "sound";
    if kind == "attr_cert" {
        if !sound {
            run_attr_cert(plan, rec, k, other);
        }
        return;
    }
    let cs = match guard(|| make_cert_sig(plan, k, other)) {
        Err(p) => {
            rec.eval(0, false);
            rec.violation("panic", &norm_loc(&p.loc), format!("signing {kind} panicked: {}", p.msg), plan.clone());
            return;
        }
        Ok(Err(e)) => {
            rec.count(&format!("skip:cert:{kind}:{}", &e[..e.len().min(30)]));
            return;
        }
        Ok(Ok(c)) => c,
    };
    let mut h = Fnv::default();
    h.str(&kind);
    h.str(k.name);
    h.str(other.name);
    h.str(jstr(plan, "uid"));
    rec.count(&format!("kind:{kind}"));
    rec.sample(json!({"kind": kind, "key": k.name, "other": other.name, "mode": jstr(plan, "mode")}));
    if !sound {
        rec.eval(h.0, true);
        let r = guard(|| {
            // directly, and after serialize -> parse
            let direct = cert_verify(&cs, &cs.sig, k, other, "");
            let reparsed = cs.sig.to_bytes().ok().and_then(|b| parse_sig(&b)).map(|s| cert_verify(&cs, &s, k, other, "")).unwrap_or(false);
            (direct, reparsed)
        });
        match r {
            Err(p) => rec.violation("panic", &norm_loc(&p.loc), format!("verifying {kind} panicked: {}", p.msg), plan.clone()),
            Ok((d, rp)) => {
                if !d || !rp {
                    rec.violation("own-signature-rejected", &format!("cert:{kind}"), format!("{kind} signature by {} is rejected by its verify_* counterpart (direct={d}, after serialize/parse={rp})", k.name), plan.clone());
                }
            }
        }
        if kind == "self_cert" {
            // whole-certificate path
            match guard(|| (k.public.verify_bindings().is_ok(), k.secret.verify_bindings().is_ok())) {
                Err(p) => rec.violation("panic", &norm_loc(&p.loc), format!("verify_bindings panicked: {}", p.msg), plan.clone()),
                Ok((a, b)) => {
                    if !a || !b {
                        rec.violation("own-signature-rejected", "verify_bindings", format!("pool key {} does not pass verify_bindings (public={a}, secret={b})", k.name), plan.clone());
                    }
                }
            }
        }
        return;
    }
    // soundness
    let Ok(body) = cs.sig.to_bytes() else { return };
    let Some(fields) = locate_sig_fields(&body) else {
        rec.count("skip:locate");
        return;
    };
    let mut targets: Vec<(usize, usize)> = Vec::new();
    if let Some(o) = plan.get("only") {
        if jstr(o, "m") == "sig" {
            targets.push((jusize(o, "off"), jusize(o, "bit")));
        }
    } else {
        for &o in fields.hashed.iter().chain(fields.salt.iter()) {
            for b in 0..8 {
                targets.push((o, b));
            }
        }
        let step = (fields.value.len() / 70).max(1);
        for &o in fields.value.iter().step_by(step) {
            for b in [0usize, 5] {
                targets.push((o, b));
            }
        }
    }
    let only_tamper = plan.get("only").filter(|o| jstr(o, "m") == "object").map(|o| jstr(o, "what").to_string());
    for (o, b) in targets {
        let mut b2 = body.clone();
        if o >= b2.len() {
            continue;
        }
        b2[o] ^= 1 << b;
        let mut hh = Fnv(h.0);
        hh.u64((o * 8 + b) as u64);
        rec.eval(hh.0, true);
        rec.count("fault:F-sig_fields");
        let mut vplan = plan.clone();
        vplan["only"] = json!({"m":"sig","off":o,"bit":b});
        match guard(|| parse_sig(&b2).map(|s| cert_verify(&cs, &s, k, other, "")).unwrap_or(false)) {
            Err(p) => rec.violation("panic", &norm_loc(&p.loc), format!("verifying a damaged {kind} signature panicked: {}", p.msg), vplan),
            Ok(true) => {
                rec.violation("forged-accepted", &format!("cert:{kind}:sig_fields"), format!("{kind}: flip of bit {b} at signature-body offset {o} ({}) is still accepted", field_name(&fields, o)), vplan);
                break;
            }
            Ok(false) => {}
        }
    }
    for what in ["uid", "key"] {
        if let Some(t) = &only_tamper {
            if t != what {
                continue;
            }
        } else if plan.get("only").is_some() {
            continue;
        }
        if what == "uid" && !kind.ends_with("cert") {
            continue;
        }
        let mut hh = Fnv(h.0);
        hh.str(what);
        rec.eval(hh.0, true);
        rec.count(&format!("fault:F-object-{what}"));
        let mut vplan = plan.clone();
        vplan["only"] = json!({"m":"object","what":what});
        match guard(|| cert_verify(&cs, &cs.sig, k, other, what)) {
            Err(p) => rec.violation("panic", &norm_loc(&p.loc), format!("verifying {kind} over a substituted {what} panicked: {}", p.msg), vplan),
            Ok(true) => rec.violation("forged-accepted", &format!("cert:{kind}:object-{what}"), format!("{kind} signature still verifies after substituting the {what}"), vplan),
            Ok(false) => {}
        }
    }
    // whole-certificate: flip bits in the serialized certificate, parse, verify_bindings must fail
    if kind == "self_cert" && plan.get("only").map(|o| jstr(o, "m") == "cert").unwrap_or(true) {
        // certificates with user attributes stand in for the plain pool key of the same version
        let k = if ju64(plan, "rng_key") % 3 == 0 { keys::get(if k.v6 { "attr-v6" } else { "attr-v4" }) } else { k };
        // a certificate whose subkey carries a second, later binding signature (as after extending an expiry)
        let two_bindings: Option<SignedPublicKey> = if ju64(plan, "rng_key") % 3 == 1 {
            (|| {
                let mut rng = SimRng::new(ju64(plan, "rng_key"), "second-binding", false);
                let mut c = SignatureConfig::from_key(&mut rng, &*k.secret, SignatureType::SubkeyBinding).ok()?;
                c.hashed_subpackets = vec![
                    Subpacket::regular(SubpacketData::SignatureCreationTime(Timestamp::now())).ok()?,
                    Subpacket::regular(SubpacketData::IssuerFingerprint(k.secret.fingerprint())).ok()?,
                ];
                let sig = c.sign_subkey_binding(&*k.secret, &k.public.primary_key, &Password::from(k.password), &k.public.public_subkeys[0].key).ok()?;
                let mut cert = k.public.clone();
                cert.public_subkeys[0].signatures.push(sig);
                cert.verify_bindings().ok()?;
                Some(cert)
            })()
        } else {
            None
        };
        if two_bindings.is_some() {
            rec.count("probe:certificate-with-two-bindings-on-a-subkey");
        }
        let public = two_bindings.as_ref().unwrap_or(&k.public);
        if let Ok(bytes) = public.to_bytes() {
            let Ok(original) = SignedPublicKey::from_bytes(&bytes[..]) else { return };
            let Ok(pk) = deframe(&bytes) else { return };
            // hashed material: key packets' bodies, user id bodies; signature packets via locate
            let mut offs: Vec<usize> = Vec::new();
            for p in &pk {
                match p.tag {
                    6 | 14 | 13 | 17 => offs.extend(p.body_start..p.end),
                    2 => {
                        if let Some(f) = locate_sig_fields(&p.body) {
                            offs.extend(f.hashed.iter().map(|o| p.body_start + o));
                        }
                    }
                    _ => {}
                }
            }
            let pick: Vec<usize> = match plan.get("only") {
                Some(o) => vec![jusize(o, "at")],
                None => offs.iter().step_by((offs.len() / 260).max(1)).cloned().collect(),
            };
            for at in pick {
                for bit in [0usize, 6] {
                    let mut b2 = bytes.clone();
                    if at >= b2.len() {
                        continue;
                    }
                    b2[at] ^= 1 << bit;
                    let mut hh = Fnv(h.0);
                    hh.u64((at * 8 + bit) as u64 ^ 0xCE47);
                    rec.eval(hh.0, true);
                    rec.count("fault:F-cert-flip");
                    let mut vplan = plan.clone();
                    vplan["only"] = json!({"m":"cert","at":at,"bit":bit});
                    // (a flip that parsing normalizes away - e.g. an MPI bit count - leaves the parsed value
                    // equal to the original and is not a change of the signed object)
                    let r = guard(|| match SignedPublicKey::from_bytes(&b2[..]) {
                        Err(_) => false,
                        // rpgp drops components whose signatures it cannot use (lenient import): what then
                        // verifies is a smaller certificate, not the damaged one.  Only a certificate that kept
                        // every component and signature, differs in value and still verifies counts.
                        Ok(c) => cert_shape(&c) == cert_shape(&original) && c != original && c.verify_bindings().is_ok(),
                    });
                    match r {
                        Err(p) => rec.violation("panic", &norm_loc(&p.loc), format!("parsing/verifying a damaged certificate panicked: {}", p.msg), vplan),
                        Ok(true) => {
                            rec.violation("forged-accepted", "cert:verify_bindings", format!("certificate of {} with bit {bit} flipped at offset {at} (hashed material) still passes verify_bindings", k.name), vplan);
                            return;
                        }
                        Ok(false) => {}
                    }
                }
            }
        }
    }
    let _ = Tier::Quick;
}
