//! C03 — ciphertext integrity: a modified encrypted message never decrypts cleanly.

use std::sync::Arc;

use pgp::{composed::PlainSessionKey, packet::StreamDecryptor, types::Seipdv1ReadMode};
use serde_json::{json, Value};

use crate::{
    model::framer::{deframe, frame, LenForm, Pkt},
    runner::{guard, norm_loc, Check, Family, GenCtx, Rec, Tier},
    seams::{self, Consumer, Sched},
    util::{jbool, jstr, ju64, jusize, payload_from_json, Fnv, Planner},
    workload::{self, Opener, ReadSpec},
};

pub fn check() -> Check {
    Check {
        property: "C03",
        level: "fault_enumeration",
        rule: "encrypted messages built by the real builder (SEIPDv1 x 11 ciphers, SEIPDv2 x 3 AEAD x 3 AES x chunk 64 B..4 KiB; plaintext lengths around 0/1/2/3 chunk boundaries; fixed and partial outer framing; session-key and password openers) are damaged in the channel: EVERY single-bit flip of the SEIPD packet (header and body) for containers <= 300 bytes (sampled above), every value 0..255 of each parameter octet, truncation at every offset both raw and with the packet length repaired, bytes appended inside the container (random and copies of valid chunks), and for SEIPDv2 every drop / duplicate / swap / permutation of up to 4 chunks, the final tag dropped or duplicated (for longer containers the same at the head, middle and tail). One plan in eight has a payload of 8-40 KiB (several decryptor buffers); one in five carries, after the literal, a packet that readers skip (padding, marker, experimental tag - appended by the stub inside the plaintext and re-encrypted under the same session key), so that the damage may sit in chunks that hold nothing but skipped octets. Each damaged message is read through Message (read_to_end, read loops, fill_buf/consume) and through packet::StreamDecryptor directly. Oracle: Err by the end of the read, never a clean end; default SEIPDv1 releases no plaintext byte; SEIPDv2 releases only a prefix of the true plaintext. Non-trivial: the fault changed at least one byte the reader consumed; distinct = distinct (message shape, mutation) pairs.",
        families: vec![Family { name: "damage", gen: gen_damage, run: run_damage }],
        assumptions: vec!["20-byte MDC, AEAD tags are treated as unforgeable", "SEIPDv1 Streaming mode is only required to end in Err (documented to release unauthenticated bytes first)", "ESK packets are left alone here (C18)"],
        real: vec!["MessageBuilder encryption layers", "Message parser, SymEncryptedProtectedDataReader, crypto::sym::StreamDecryptor, crypto::aead::StreamDecryptor"],
        stubs: vec!["channel (bit flips, truncation, append, chunk reordering)", "independent deframer to locate fields and chunks", "consumer driver"],
    }
}

fn gen_damage(ctx: &GenCtx) -> Vec<Value> {
    let n = ctx.n(700, 20_000);
    let thorough = ctx.tier == Tier::Thorough;
    let mut plans: Vec<Value> = Vec::new();
    if ctx.first_round() {
        let mut p = Planner::new(ctx.seed, "c03.enumerated", 0);
        // SEIPDv1: decrypted streams that end on / next to a refill boundary of the decryptor (8 KiB first,
        // then 8 KiB less the 22 held-back MDC octets), in both read modes
        for k in 0..3usize {
            for d in 0..24usize {
                for streaming in [false, true] {
                    let len = 8192 + k * 8170 - 22 - d;
                    let cfg = json!({"source":"bytes","file_name":"","data_mode":"binary","partial":512,"compression":"none","signers":[],
                        "enc":{"k":"v1","sym": *p.pick(&["aes128","aes256","cast5","twofish"])},"recipients":[],"passwords":[],"armor":false,"rng_key": p.u64()});
                    plans.push(json!({"cfg": cfg, "payload": {"gen":"random","len": len, "key": p.u64()}, "password": false, "consumer": p.consumer(false).to_json(),
                        "streaming": streaming, "lowlevel": d % 6 == 0, "pick": p.u64(), "trailing": null, "light": true}));
                }
            }
        }
        // SEIPDv2 with the largest legal chunk size (octet 16): every value of every header octet, every header bit
        for aead in workload::AEADS {
            for sym in ["aes128", "aes256"] {
                let cfg = json!({"source":"bytes","file_name":"","data_mode":"binary","partial":512,"compression":"none","signers":[],
                    "enc":{"k":"v2","sym": sym,"aead": aead,"chunk":16},"recipients":[],"passwords":[],"armor":false,"rng_key": p.u64()});
                plans.push(json!({"cfg": cfg, "payload": {"gen":"random","len": 100, "key": p.u64()}, "password": false, "consumer": {"k":"read_to_end"},
                    "streaming": false, "lowlevel": true, "pick": p.u64(), "trailing": null, "header_only": true}));
            }
        }
    }
    plans.extend((0..n)
        .map(|i| {
            let mut p = Planner::new(ctx.seed, "c03.damage", i as u64);
            let v2 = p.chance(3, 5);
            let chunk = if thorough && p.chance(1, 6) { p.range(3, 6) } else { p.range(0, 1) };
            let csz = 64usize << chunk;
            let enc = if v2 {
                json!({"k":"v2","sym": *p.pick(&["aes128","aes192","aes256"]), "aead": *p.pick(&workload::AEADS), "chunk": chunk})
            } else {
                json!({"k":"v1","sym": *p.pick(&workload::SYMS)})
            };
            // literal header is 6 + name octets: choose payload so that the *plaintext stream* hits chunk boundaries
            let lit = 2 + 6; // packet header + literal header with empty name
            let targets = [0usize, 1, csz - 1, csz, csz + 1, 2 * csz - 1, 2 * csz, 2 * csz + 1, 3 * csz + 7];
            let t = *p.pick(&targets);
            // (some payloads span several 8 KiB decryptor buffers: what is released early matters there)
            let len = if p.chance(1, 8) { p.range(8193, 40_000) } else if p.chance(3, 4) { t.saturating_sub(lit) + p.below(2) * lit } else { p.range(0, 3 * csz) };
            // packets a reader skips after the literal (padding, marker, experimental tags): the damage may
            // then sit in chunks that carry nothing but skipped octets
            let trailing = if p.chance(1, 5) {
                match p.below(4) {
                    0 => json!({"tag": 10, "len": 3}),
                    1 => json!({"tag": 60 + p.below(4), "len": p.range(0, 4 * csz)}),
                    _ => json!({"tag": 21, "len": *p.pick(&[1usize, csz, 2 * csz + 5, 5 * csz - 27, 303, 1500, 3000, 9000])}),
                }
            } else {
                Value::Null
            };
            let pw = p.chance(1, 4);
            let cfg = json!({"source": *p.pick(&["bytes","reader"]), "file_name":"", "data_mode":"binary", "partial": 512,
                "compression": if p.chance(1,5) { "zip" } else { "none" }, "signers": [], "enc": enc, "recipients": [],
                "passwords": if pw { json!([{"pw":"hunter2","s2k":{"k":"iterated","hash":"sha256","count":0}}]) } else { json!([]) },
                "armor": false, "rng_key": p.u64()});
            json!({"cfg": cfg, "payload": {"gen":"random","len": len, "key": p.u64()}, "password": pw,
                   "consumer": p.consumer(false).to_json(), "streaming": !v2 && p.chance(1,4), "lowlevel": p.chance(1,4), "pick": p.u64(), "trailing": trailing})
        }));
    plans
}

/// map an offset in the packet body to the offset in the stream (skipping partial length octets)
fn body_to_stream(pk: &Pkt, off: usize) -> Option<usize> {
    let mut pos = 0;
    for (len, _p, at) in &pk.chunks {
        if off < pos + len {
            return Some(at + (off - pos));
        }
        pos += len;
    }
    None
}

fn reframed(prefix: &[u8], body: &[u8]) -> Vec<u8> {
    [prefix, &frame(18, body, &LenForm::NewMinimal).unwrap()[..]].concat()
}

/// Apply one mutation; None = not applicable / no change.
fn mutate(stream: &[u8], pk: &Pkt, m: &Value, v2: bool, csz: usize) -> Option<Vec<u8>> {
    let prefix = &stream[..pk.start];
    let out = match jstr(m, "m") {
        "flip" => {
            let bit = jusize(m, "bit");
            let mut s = stream.to_vec();
            let at = pk.start + bit / 8;
            if at >= pk.end {
                return None;
            }
            s[at] ^= 1 << (bit % 8);
            s
        }
        "byte" => {
            let at = body_to_stream(pk, jusize(m, "off"))?;
            let mut s = stream.to_vec();
            s[at] = jusize(m, "val") as u8;
            s
        }
        "trunc_raw" => stream[..pk.start + jusize(m, "at")].to_vec(),
        "trunc_reframed" => reframed(prefix, &pk.body[..jusize(m, "at").min(pk.body.len())]),
        "append" => {
            let n = jusize(m, "n");
            let extra: Vec<u8> = if jbool(m, "copy") && pk.body.len() > 40 {
                let hdr = if v2 { 36 } else { 1 };
                pk.body[hdr..].iter().cycle().take(n).cloned().collect()
            } else {
                Planner::new(ju64(m, "key"), "append", 0).bytes(n)
            };
            if jbool(m, "before_tag") && v2 && pk.body.len() >= 52 {
                let cut = pk.body.len() - 16;
                reframed(prefix, &[&pk.body[..cut], &extra[..], &pk.body[cut..]].concat())
            } else {
                reframed(prefix, &[&pk.body[..], &extra[..]].concat())
            }
        }
        "unit" => {
            if !v2 || pk.body.len() < 52 {
                return None;
            }
            let hdr = &pk.body[..36];
            let data = &pk.body[36..pk.body.len() - 16];
            let tag = &pk.body[pk.body.len() - 16..];
            let units: Vec<&[u8]> = data.chunks(csz + 16).collect();
            let perm: Vec<usize> = m["perm"].as_array()?.iter().map(|x| x.as_u64().unwrap_or(0) as usize).collect();
            let mut body = hdr.to_vec();
            for i in &perm {
                body.extend_from_slice(units.get(*i)?);
            }
            match jstr(m, "tag") {
                "drop" => {}
                "dup" => {
                    body.extend_from_slice(tag);
                    body.extend_from_slice(tag);
                }
                _ => body.extend_from_slice(tag),
            }
            reframed(prefix, &body)
        }
        _ => return None,
    };
    if out == stream {
        None
    } else {
        Some(out)
    }
}

fn permutations(n: usize) -> Vec<Vec<usize>> {
    // every sequence over 0..n of length n-1, n, n+1 that is not the identity (drop, permute, duplicate), n <= 4
    let mut out = Vec::new();
    let ident: Vec<usize> = (0..n).collect();
    let lens: Vec<usize> = if n == 0 { vec![1] } else { vec![n.saturating_sub(1), n, n + 1] };
    for l in lens {
        let total = (n.max(1)).pow(l as u32);
        if total > 700 {
            continue;
        }
        for code in 0..total {
            let mut c = code;
            let mut seq = Vec::with_capacity(l);
            for _ in 0..l {
                seq.push(c % n.max(1));
                c /= n.max(1);
            }
            if seq != ident && (n > 0 || seq.is_empty()) {
                out.push(seq);
            }
        }
    }
    out
}

fn run_damage(plan: &Value, rec: &mut Rec) {
    let cfg = &plan["cfg"];
    let payload = payload_from_json(&plan["payload"]);
    let (built, info) = workload::build_reference(cfg, &payload, ju64(cfg, "rng_key"), false);
    let Ok(stream) = built else {
        rec.count("skip:build");
        return;
    };
    let Ok(pkts) = deframe(&stream) else {
        rec.count("skip:deframe");
        return;
    };
    let Some(pk) = pkts.last().filter(|p| p.tag == 18).cloned() else {
        rec.count("skip:no-seipd");
        return;
    };
    let v2 = jstr(&cfg["enc"], "k") == "v2";
    let csz = 64usize << cfg["enc"]["chunk"].as_u64().unwrap_or(0).min(16);
    let sk = workload::session_key(&info);
    // a legal message whose plaintext continues after the literal with a packet that readers skip:
    // the stub decrypts the container, appends the packet and encrypts again under the same session key
    let (stream, pk) = if plan.get("trailing").map(|t| !t.is_null()).unwrap_or(false) {
        let t = &plan["trailing"];
        let tag = jusize(t, "tag") as u8;
        let body: Vec<u8> = if tag == 10 { b"PGP".to_vec() } else { Planner::new(ju64(plan, "pick"), "trailing", 0).bytes(jusize(t, "len")) };
        let rebuilt = (|| {
            let (mut inner, end) = lowlevel_decrypt(&pk.body, &sk, &Consumer::ReadToEnd)?;
            end.ok()?;
            inner.extend_from_slice(&frame(tag, &body, &LenForm::NewMinimal)?);
            let mut seipd = crate::checks::c04::encrypt_inner(&inner, cfg, sk.as_ref()?, ju64(cfg, "rng_key") / 3 * 3 + 1)?;
            // outer framing in partial body lengths (512-octet chunks), as a streaming sender writes it
            if ju64(plan, "pick") % 2 == 0 {
                let body = deframe(&seipd).ok()?.first()?.body.clone();
                if body.len() >= 1024 {
                    seipd = frame(18, &body, &LenForm::Partial(vec![9u8; body.len() / 512 - 1], Box::new(LenForm::NewMinimal)))?;
                }
            }
            let s = [&stream[..pk.start], &seipd[..]].concat();
            let pk = deframe(&s).ok()?.last().cloned()?;
            Some((s, pk))
        })();
        match rebuilt {
            Some(x) => {
                rec.count(&format!("probe:trailing-skipped-packet-tag-{tag}"));
                x
            }
            None => {
                rec.count("skip:trailing-rebuild");
                return;
            }
        }
    } else {
        (stream, pk)
    };
    let consumer = Consumer::from_json(&plan["consumer"]);
    let streaming = jbool(plan, "streaming");
    let lowlevel = jbool(plan, "lowlevel");
    let opener = if jbool(plan, "password") { Opener::Password("hunter2".into()) } else { Opener::SessionKey(sk.clone().expect("session key")) };
    let max = payload.len() + 4096;
    // default-mode SEIPDv1 with an explicit size limit placed exactly on / next to the size of the
    // encrypted data (prefix + data + MDC = body minus the version octet)
    let v1_limit: Option<usize> = if !v2 && !streaming && !jbool(plan, "password") {
        // the limit is compared with what follows the (block size + 2)-octet prefix
        let bs = workload::sym(jstr(&cfg["enc"], "sym")).block_size();
        let after_prefix = (pk.body.len() - 1).saturating_sub(bs + 2);
        match ju64(plan, "pick") % 6 {
            0 => Some(after_prefix),
            1 => Some(after_prefix + 1),
            2 => Some(pk.body.len() - 1),
            3 => Some(pk.body.len() + 7),
            _ => None,
        }
    } else {
        None
    };
    if v1_limit.is_some() {
        rec.count("probe:seipdv1-explicit-size-limit");
    }

    // the undamaged message must read cleanly (else nothing can be learned)
    let read = |s: Arc<Vec<u8>>| {
        let (input, _l) = seams::sim_bufread(s, Sched::Full, 8192, vec![]);
        let spec = ReadSpec { armor: false, opener: opener.clone(), consumer: &consumer, verifiers: vec![], max, streaming_v1: streaming, v1_limit, opts: 4 | 16 };
        guard(|| workload::read_message(input, &spec))
    };
    match read(Arc::new(stream.clone())) {
        Ok(o) if o.end.is_ok() && o.data == payload => {}
        _ => {
            rec.count("skip:undamaged-does-not-read");
            return;
        }
    }
    // true inner plaintext stream for the low-level comparison
    let inner_plain: Option<Vec<u8>> = if lowlevel {
        let body = pk.body.clone();
        lowlevel_decrypt(&body, &sk, &Consumer::ReadToEnd).and_then(|r| r.1.ok().map(|_| r.0))
    } else {
        None
    };

    // ---- mutation list
    let mut muts: Vec<Value> = Vec::new();
    if let Some(o) = plan.get("only") {
        muts.push(o.clone());
    } else {
        let pick = ju64(plan, "pick") as usize;
        let nbits = (pk.end - pk.start) * 8;
        let light = jbool(plan, "light");
        let header_only = jbool(plan, "header_only");
        if header_only {
            for b in 0..(42 * 8).min(nbits) {
                muts.push(json!({"m":"flip","bit":b}));
            }
        } else if light {
            for j in 0..64 {
                muts.push(json!({"m":"flip","bit": (pick.wrapping_mul(j * 2 + 1).wrapping_add(j * 7919)) % nbits}));
            }
            for b in nbits - 24 * 8..nbits {
                muts.push(json!({"m":"flip","bit":b}));
            }
        } else if nbits <= 300 * 8 {
            for b in 0..nbits {
                muts.push(json!({"m":"flip","bit":b}));
            }
        } else {
            for j in 0..400 {
                muts.push(json!({"m":"flip","bit": (pick.wrapping_mul(j * 2 + 1).wrapping_add(j * 7919)) % nbits}));
            }
            for b in 0..(40 * 8).min(nbits) {
                muts.push(json!({"m":"flip","bit":b}));
            }
            for b in nbits - 24 * 8..nbits {
                muts.push(json!({"m":"flip","bit":b}));
            }
        }
        let hdr_octets = if v2 { 4 } else { 1 };
        for off in 0..hdr_octets {
            for val in 0..256 {
                muts.push(json!({"m":"byte","off":off,"val":val}));
            }
        }
        let plen = pk.end - pk.start;
        let cuts = if header_only { 0 } else if light { 30 } else { 300 };
        let step = (plen / cuts.max(1)).max(1);
        for at in (0..plen).step_by(step).take(cuts + 1) {
            muts.push(json!({"m":"trunc_raw","at":at}));
        }
        let step = (pk.body.len() / cuts.max(1)).max(1);
        for at in (0..pk.body.len()).step_by(step).take(cuts + 1) {
            muts.push(json!({"m":"trunc_reframed","at":at}));
        }
        // partial body lengths: cut exactly on (and next to) every chunk boundary of the outer packet
        if !header_only && pk.chunks.len() > 1 {
            let n = pk.chunks.len();
            for (i, (_len, _p, at)) in pk.chunks.iter().enumerate() {
                if n > 40 && i % (n / 40 + 1) != 0 && i + 3 < n {
                    continue;
                }
                for d in [0isize, -1, 1] {
                    let off = (*at as isize - pk.start as isize + d).max(0) as usize;
                    if off < plen {
                        muts.push(json!({"m":"trunc_raw","at":off}));
                    }
                }
            }
        }
        if light {
            // the last octets one by one: the end of the data and the MDC
            for at in pk.body.len().saturating_sub(30)..pk.body.len() {
                muts.push(json!({"m":"trunc_reframed","at":at}));
            }
        }
        for n in [1usize, 15, 16, 17, csz.min(4096), csz.min(4096) + 16, 22].into_iter().filter(|_| !header_only) {
            for copy in [false, true] {
                for before in [false, true] {
                    muts.push(json!({"m":"append","n":n,"copy":copy,"before_tag":before,"key":pick}));
                }
            }
        }
        if v2 && pk.body.len() >= 52 {
            let nunits = (pk.body.len() - 52).div_ceil(csz + 16);
            if nunits <= 4 {
                for perm in permutations(nunits) {
                    for tag in ["keep", "drop", "dup"] {
                        muts.push(json!({"m":"unit","perm":perm,"tag":tag}));
                    }
                }
                let ident: Vec<usize> = (0..nunits).collect();
                muts.push(json!({"m":"unit","perm":ident,"tag":"drop"}));
                muts.push(json!({"m":"unit","perm":ident,"tag":"dup"}));
            } else if nunits <= 200 {
                // many chunks: drop / duplicate / swap at the tail, in the middle and at the head
                let ident: Vec<usize> = (0..nunits).collect();
                let mut perms: Vec<Vec<usize>> = Vec::new();
                for k in 1..=3 {
                    perms.push(ident[..nunits - k].to_vec());
                    perms.push(ident[k..].to_vec());
                }
                for at in [0, nunits / 2, nunits - 2] {
                    let mut v = ident.clone();
                    v.swap(at, at + 1);
                    perms.push(v);
                    let mut v = ident.clone();
                    v.insert(at, at);
                    perms.push(v);
                    let mut v = ident.clone();
                    v.remove(at);
                    perms.push(v);
                }
                for perm in perms {
                    for tag in ["keep", "drop"] {
                        muts.push(json!({"m":"unit","perm":perm,"tag":tag}));
                    }
                }
                muts.push(json!({"m":"unit","perm":ident,"tag":"drop"}));
                muts.push(json!({"m":"unit","perm":ident,"tag":"dup"}));
            }
        }
    }

    let mut shape = Fnv::default();
    shape.str(&cfg["enc"].to_string());
    shape.u64(payload.len() as u64);
    shape.str(jstr(cfg, "source"));
    shape.str(consumer.label());
    rec.count(&format!("consumer:{}", consumer.label()));
    if rec.samples.is_empty() {
        rec.sample(json!({"enc": cfg["enc"], "payload_len": payload.len(), "container_len": pk.end - pk.start, "mutations": muts.len(), "consumer": plan["consumer"], "streaming": streaming, "lowlevel": lowlevel}));
    }

    for m in muts {
        let Some(damaged) = mutate(&stream, &pk, &m, v2, csz) else { continue };
        let kind = jstr(&m, "m");
        let mut h = Fnv(shape.0);
        h.str(&m.to_string());
        rec.eval(h.0, true);
        rec.count(&format!("fault:F-{kind}"));
        let mut vplan = plan.clone();
        vplan["only"] = m.clone();
        let site = format!("Message:{}:{kind}", if v2 { "seipdv2" } else if streaming { "seipdv1-streaming" } else { "seipdv1" });
        if let Ok(path) = std::env::var("VERIF_DUMP") {
            let _ = std::fs::write(&path, &damaged);
            if let Some(PlainSessionKey::V3_4 { key, .. }) | Some(PlainSessionKey::V6 { key }) = &sk {
                let _ = std::fs::write(format!("{path}.key"), hex::encode(key.as_ref()));
            }
        }
        match read(Arc::new(damaged.clone())) {
            Err(p) => rec.violation("panic", &norm_loc(&p.loc), format!("reading a damaged container panicked ({}): {}", m, p.msg), vplan.clone()),
            Ok(o) => {
                // a caller who reads on after the error (the decryptors keep a failure state for this)
                if let Some((n, clean)) = o.after_error {
                    if n > 0 {
                        rec.count("probe:message-reader-hands-out-octets-after-its-error");
                    }
                    if clean {
                        rec.violation("clean-end-on-damaged-ciphertext", &format!("{site} [reading on after the error]"), format!("mutation {m}: the read failed ({:?}), the caller read on and reached a clean end of stream after {n} more octets", o.end), vplan.clone());
                    }
                }
                if o.end.is_ok() {
                    rec.violation("clean-end-on-damaged-ciphertext", &site, format!("mutation {m}: the decrypted stream ended cleanly with {} bytes (payload {})", o.data.len(), payload.len()), vplan.clone());
                } else if !v2 && !streaming && !o.data.is_empty() {
                    rec.violation("plaintext-released-before-mdc-check", &site, format!("mutation {m}: default SEIPDv1 mode released {} plaintext bytes before failing", o.data.len()), vplan.clone());
                } else if v2 && !payload.starts_with(&o.data) && jstr(cfg, "compression") == "none" {
                    rec.violation("released-bytes-not-a-prefix", &site, format!("mutation {m}: {} released bytes are not a prefix of the true plaintext", o.data.len()), vplan.clone());
                }
            }
        }
        // SEIPDv1 in streaming mode through crypto::sym::StreamDecryptor itself (it has its own read_to_end)
        if !v2 && lowlevel {
            if let (Ok(dp), Some(PlainSessionKey::V3_4 { sym_alg, key })) = (deframe(&damaged), &sk) {
                if let Some(dpk) = dp.last().filter(|p| p.tag == 18 && p.body.first() == Some(&1)) {
                    rec.eval(h.0 ^ 0x22, true);
                    let body = dpk.body.clone();
                    let r = guard(|| -> Option<(usize, bool)> {
                        let src = std::io::BufReader::with_capacity(512, &body[1..]);
                        let mut d = sym_alg.stream_decryptor_protected(Seipdv1ReadMode::Streaming, key.as_ref(), src).ok()?;
                        let (data, end) = seams::drain_read(&mut d, &consumer, body.len() + 64);
                        Some((data.len(), end.is_ok()))
                    });
                    match r {
                        Err(p) => rec.violation("panic", &norm_loc(&p.loc), format!("crypto::sym::StreamDecryptor (streaming) panicked ({}): {}", m, p.msg), vplan.clone()),
                        Ok(Some((n, true))) => rec.violation("clean-end-on-damaged-ciphertext", &format!("sym::StreamDecryptor:streaming:{kind}"), format!("mutation {m}: the streaming decryptor, read with {}, ended cleanly after {n} octets", consumer.label()), vplan.clone()),
                        Ok(_) => {}
                    }
                }
            }
        }
        // the raw decryptor on the (possibly re-framed) body
        if lowlevel && matches!(kind, "trunc_reframed" | "append" | "unit" | "byte") {
            if let (Ok(dp), Some(truth)) = (deframe(&damaged), &inner_plain) {
                if let Some(dpk) = dp.last().filter(|p| p.tag == 18) {
                    rec.eval(h.0 ^ 0x11, true);
                    let r = guard(|| lowlevel_decrypt(&dpk.body, &sk, &consumer));
                    let site = format!("StreamDecryptor:{}:{kind}", if v2 { "v2" } else { "v1" });
                    match r {
                        Err(p) => rec.violation("panic", &norm_loc(&p.loc), format!("StreamDecryptor panicked ({}): {}", m, p.msg), vplan.clone()),
                        Ok(None) => {}
                        Ok(Some((data, end))) => {
                            if let Some((n, clean)) = POST_ERROR.with(|p| p.get()) {
                                if n > 0 {
                                    rec.count(if v2 { "probe:raw-v2-decryptor-hands-out-octets-after-its-error" } else { "probe:raw-v1-decryptor-hands-out-octets-after-its-error" });
                                }
                                if clean {
                                    rec.violation("clean-end-on-damaged-ciphertext", &format!("{site} [reading on after the error]"), format!("mutation {m}: the raw decryptor failed, the caller read on and reached a clean end of stream after {n} more octets"), vplan.clone());
                                }
                            }
                            if end.is_ok() {
                                rec.violation("clean-end-on-damaged-ciphertext", &site, format!("mutation {m}: raw decryptor ended cleanly with {} bytes", data.len()), vplan.clone());
                            } else if v2 && !truth.starts_with(&data) {
                                rec.violation("released-bytes-not-a-prefix", &site, format!("mutation {m}: raw decryptor released {} bytes that are not a prefix of the true inner stream", data.len()), vplan.clone());
                            } else if !v2 && !data.is_empty() {
                                rec.violation("plaintext-released-before-mdc-check", &site, format!("mutation {m}: raw v1 decryptor (CheckFirst) released {} bytes", data.len()), vplan.clone());
                            }
                        }
                    }
                }
            }
        }
    }
}

thread_local! {
    /// (octets, clean end seen) that further reads produced after the raw decryptor's first error
    static POST_ERROR: std::cell::Cell<Option<(usize, bool)>> = const { std::cell::Cell::new(None) };
}

/// observation only (the property speaks about the stream up to its failure): what a caller gets who
/// reads on after the error
fn read_on_after_error<R: std::io::Read>(d: &mut R) {
    let mut n = 0usize;
    let mut clean = false;
    let mut buf = [0u8; 256];
    for _ in 0..4096 {
        match d.read(&mut buf) {
            Ok(0) => {
                clean = true;
                break;
            }
            Ok(k) => n += k,
            Err(_) => break,
        }
    }
    POST_ERROR.with(|p| p.set(Some((n, clean))));
}

/// run packet::StreamDecryptor over a SEIPD packet body. None = parameters not usable.
#[allow(clippy::type_complexity)]
fn lowlevel_decrypt(body: &[u8], sk: &Option<PlainSessionKey>, consumer: &Consumer) -> Option<(Vec<u8>, Result<(), String>)> {
    POST_ERROR.with(|p| p.set(None));
    let sk = sk.as_ref()?;
    let version = *body.first()?;
    match (version, sk) {
        (1, PlainSessionKey::V3_4 { sym_alg, key }) => {
            let src = std::io::BufReader::with_capacity(512, &body[1..]);
            match StreamDecryptor::v1(*sym_alg, Seipdv1ReadMode::default(), key.as_ref(), src) {
                Err(e) => Some((vec![], Err(e.to_string()))),
                Ok(mut d) => {
                    let (data, end) = seams::drain(&mut d, consumer, body.len() + 64);
                    if end.is_err() {
                        read_on_after_error(&mut d);
                    }
                    Some((data, end.map_err(|e| e.to_string())))
                }
            }
        }
        (2, PlainSessionKey::V6 { key }) => {
            if body.len() < 36 {
                return Some((vec![], Err("short".into())));
            }
            let sym = pgp::crypto::sym::SymmetricKeyAlgorithm::from(body[1]);
            let aead = pgp::crypto::aead::AeadAlgorithm::from(body[2]);
            let Ok(cs) = pgp::crypto::aead::ChunkSize::try_from(body[3]) else { return Some((vec![], Err("chunk size octet".into()))) };
            let mut salt = [0u8; 32];
            salt.copy_from_slice(&body[4..36]);
            let src = std::io::BufReader::with_capacity(512, &body[36..]);
            match StreamDecryptor::v2(sym, aead, cs, &salt, key.as_ref(), src) {
                Err(e) => Some((vec![], Err(e.to_string()))),
                Ok(mut d) => {
                    let (data, end) = seams::drain(&mut d, consumer, body.len() + 64);
                    if end.is_err() {
                        read_on_after_error(&mut d);
                    }
                    Some((data, end.map_err(|e| e.to_string())))
                }
            }
        }
        _ => None,
    }
}
