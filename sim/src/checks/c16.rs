//! C16 — cleartext signatures: text survives, framing is unspoofable, signature binds.
//! Channel model: a mail path between signer and verifier that may rewrite body lines.

use std::sync::Arc;

use pgp::{
    armor::DearmorOptions,
    composed::{ArmorOptions, CleartextSignedMessage},
    packet::{SignatureConfig, SignatureType, Subpacket, SubpacketData},
    types::{KeyDetails, Password, Timestamp},
};
use serde_json::{json, Value};

use crate::{
    checks::sigs::csf_signed_form,
    keys,
    rng::SimRng,
    runner::{guard, norm_loc, Check, Family, GenCtx, Rec},
    seams::{self, Sched, SimReader},
    util::{jstr, ju64, jusize, lf_to_crlf, Fnv, Planner},
    workload,
};

pub fn check() -> Check {
    Check {
        property: "C16",
        level: "exploration",
        rule: "texts from a grammar over {'-', SP, TAB, CR, LF, letters, 'é', the armor boundary strings, \"- \", \"Hash: x\", \"From \"} with 0..8 lines, with and without final newline, signed through CleartextSignedMessage::sign / new / new_many (1-2 signers, SHA-256/384/512), written with to_armored_string (and with to_armored_writer into sinks that take 1..64 octets per call: same document), sent through a mail-path channel that rewrites body lines (identity, LF->CRLF, CRLF->LF, trailing blanks stripped, trailing blanks added, one bit flipped, one byte inserted or deleted), and read back with from_string / from_armor(SimReader) / from_armor_buf(SimBufRead) under read schedules. One symmetric oracle for every channel: with r = reference signed form of the original text and r' = reference signed form of the body as it leaves the channel, verify succeeds iff r' == r and, whenever parsing succeeds, signed_text() == r'; on the identity channel text() round-trips. Non-trivial: the text contains a dash-initial line, a blank-terminated line, a CR or an armor boundary string; distinct = (text, channel, reader) hash.",
        families: vec![Family { name: "mailpath", gen: gen_mail, run: run_mail }],
        assumptions: vec![
            "the channel touches body lines only, never the armor header, the Hash headers or the signature block",
            "the reference model of the cleartext framework (dash-unescape, strip trailing SP/TAB per line, CRLF per line) is 30 lines in the harness",
            "hostile edits that make a body line start with five dashes end the cleartext for every parser; for those only 'Err, or verify fails' is demanded",
        ],
        real: vec!["CleartextSignedMessage::{sign,new,new_many,to_armored_string,from_string,from_armor,from_armor_buf,verify,verify_many,signed_text,text}", "armor header parser, Dearmor for the signature block"],
        stubs: vec!["mail-path channel", "cleartext reference model", "SimReader schedules"],
    }
}

const ATOMS: [&str; 24] = [
    "hello", "world", "-", "--", "-----", "- ", "- -", " ", "  ", "\t", " \t ", "\r", "é", "€ 5", "From me", "Hash: SHA256", "Hash: x",
    "-----BEGIN PGP SIGNATURE-----", "-----BEGIN PGP SIGNED MESSAGE-----", "-----END PGP SIGNATURE-----", "-----BEGIN PGP MESSAGE-----", "-----END PGP MESSAGE-----", "=abcd", "x",
];

fn gen_text(p: &mut Planner) -> String {
    if p.chance(1, 14) {
        // a text whose signed form sits on / next to the 512-byte buffer of the streaming normalizer
        let target = *p.pick(&[510usize, 511, 512, 513, 1023, 1024, 1025, 1536]);
        let ending = *p.pick(&["\r", "x", " ", "\r\n", "\n", "-", "\t\r"]);
        let mut t = String::new();
        let multi = p.chance(1, 2);
        while t.len() + ending.len() < target {
            // (every LF becomes CR LF in the signed form: count two octets for it)
            if multi && t.len() % 64 == 62 && t.len() + ending.len() + 2 < target {
                t.push('\n');
                t.push('a'); // keeps the arithmetic simple: LF adds one octet in the signed form, so drop one filler below
                continue;
            }
            t.push('a');
        }
        let lfs = t.matches('\n').count();
        for _ in 0..lfs {
            t.pop();
        }
        t.push_str(ending);
        return t;
    }
    let lines = p.range(0, 8);
    let mut t = String::new();
    for i in 0..lines {
        for _ in 0..p.range(0, 3) {
            let a: &str = *p.pick(&ATOMS);
            t.push_str(a);
        }
        if i + 1 < lines || p.chance(1, 2) {
            t.push_str(match p.below(8) {
                0 => "\r\n",
                1 => "\n\n",
                _ => "\n",
            });
        }
    }
    t
}

fn gen_mail(ctx: &GenCtx) -> Vec<Value> {
    let n = ctx.n(400_000, 6_000_000);
    (0..n)
        .map(|i| {
            let mut p = Planner::new(ctx.seed, "c16.mail", i as u64);
            let text = gen_text(&mut p);
            let channel = *p.pick(&["identity", "identity", "lf_to_crlf", "crlf_to_lf", "strip_blanks", "add_blanks", "flip", "insert", "delete"]);
            json!({"text": text, "signer": *p.pick(&["sign", "sign", "new", "new_many"]), "key": *p.pick(&["ed25519-v4", "ed25519-v6", "p256-v4", "ed25519-v4-locked"]),
                   "key2": *p.pick(&["ed25519-v6", "edlegacy-v4"]), "hash": *p.pick(&["sha256","sha384","sha512"]),
                   "channel": channel, "pick": p.u64(), "reader": *p.pick(&["from_string", "from_armor", "from_armor_buf"]),
                   "src_sched": p.sched().to_json(), "cap": *p.pick(&[1usize, 2, 7, 64, 8192]), "rng_key": p.u64()})
        })
        .collect()
}

/// reference dash-escape
fn model_escape(text: &str) -> String {
    text.split_inclusive('\n').map(|l| if l.starts_with('-') { format!("- {l}") } else { l.to_string() }).collect()
}

/// reference: the text a reader must reconstruct from a cleartext body (terminator removed, escapes undone)
fn model_text_of_body(body: &str) -> Option<String> {
    // the last line ending (CR+LF or LF) terminates the cleartext and is not part of it
    let inner = body.strip_suffix("\r\n").or_else(|| body.strip_suffix('\n'))?;
    Some(inner.split_inclusive('\n').map(|l| l.strip_prefix("- ").unwrap_or(l).to_string()).collect())
}

fn split_doc(doc: &str) -> Option<(usize, usize)> {
    // body = between the first blank line and the signature armor header line
    let sep = doc.find("\n\n")? + 2;
    let end = doc.rfind("-----BEGIN PGP SIGNATURE-----")?;
    if end < sep {
        return None;
    }
    Some((sep, end))
}

fn channel(body: &str, kind: &str, pick: u64) -> String {
    match kind {
        "lf_to_crlf" => lf_to_crlf(body),
        "crlf_to_lf" => body.replace("\r\n", "\n"),
        "strip_blanks" => body.split_inclusive('\n').map(|l| {
            let (c, e) = if let Some(c) = l.strip_suffix("\r\n") { (c, "\r\n") } else if let Some(c) = l.strip_suffix('\n') { (c, "\n") } else { (l, "") };
            format!("{}{}", c.trim_end_matches([' ', '\t']), e)
        }).collect(),
        "add_blanks" => body.split_inclusive('\n').enumerate().map(|(i, l)| {
            let (c, e) = if let Some(c) = l.strip_suffix("\r\n") { (c, "\r\n") } else if let Some(c) = l.strip_suffix('\n') { (c, "\n") } else { (l, "") };
            let add = [" ", "\t", "  \t", ""][(pick as usize + i) % 4];
            format!("{c}{add}{e}")
        }).collect(),
        "flip" | "insert" | "delete" => {
            let mut b = body.as_bytes().to_vec();
            if b.is_empty() {
                return body.to_string();
            }
            let at = (pick as usize) % b.len();
            match kind {
                "flip" => b[at] ^= 1 << ((pick >> 32) % 7),
                "insert" => b.insert(at, *[b'-', b' ', b'\n', b'\r', b'a', b'\t'].get((pick >> 32) as usize % 6).unwrap()),
                _ => {
                    b.remove(at);
                }
            }
            match String::from_utf8(b) {
                Ok(s) => s,
                Err(_) => body.to_string(),
            }
        }
        _ => body.to_string(),
    }
}

fn run_mail(plan: &Value, rec: &mut Rec) {
    let text = jstr(plan, "text").to_string();
    let k = keys::get(jstr(plan, "key"));
    let k2 = keys::get(jstr(plan, "key2"));
    let signer = jstr(plan, "signer");
    let hash = workload::hash(jstr(plan, "hash"));
    let kind = jstr(plan, "channel");
    let two = signer == "new_many";
    let signed = guard(|| -> Result<CleartextSignedMessage, String> {
        let mut rng = SimRng::new(ju64(plan, "rng_key"), "c16", false);
        let pw = Password::from(k.password);
        let hash_first = hash;
        let cfg_for_hash = |rng: &mut SimRng, key: &keys::PoolKey, hash: pgp::crypto::hash::HashAlgorithm| -> Result<SignatureConfig, String> {
            let mut c = match key.v6 {
                true => SignatureConfig::v6(rng, SignatureType::Text, key.secret.algorithm(), hash).map_err(|e| e.to_string())?,
                false => SignatureConfig::v4(SignatureType::Text, key.secret.algorithm(), hash),
            };
            c.hashed_subpackets = vec![
                Subpacket::regular(SubpacketData::SignatureCreationTime(Timestamp::now())).map_err(|e| e.to_string())?,
                Subpacket::regular(SubpacketData::IssuerFingerprint(key.secret.fingerprint())).map_err(|e| e.to_string())?,
            ];
            Ok(c)
        };
        let cfg_for = |rng: &mut SimRng, key: &keys::PoolKey| cfg_for_hash(rng, key, hash_first);
        // the second signer of a two-signer document uses another hash algorithm every other time
        // (the document then carries two Hash: header values)
        let hash_second = if ju64(plan, "pick") % 2 == 0 {
            hash_first
        } else if hash_first == pgp::crypto::hash::HashAlgorithm::Sha512 {
            pgp::crypto::hash::HashAlgorithm::Sha256
        } else {
            pgp::crypto::hash::HashAlgorithm::Sha512
        };
        match signer {
            "new" => {
                let c = cfg_for(&mut rng, k)?;
                CleartextSignedMessage::new(&text, c, &*k.secret, &pw).map_err(|e| e.to_string())
            }
            "new_many" => {
                let c1 = cfg_for(&mut rng, k)?;
                let c2 = cfg_for_hash(&mut rng, k2, hash_second)?;
                CleartextSignedMessage::new_many(&text, |t| Ok(vec![c1.sign(&*k.secret, &pw, t.as_bytes())?, c2.sign(&*k2.secret, &Password::from(k2.password), t.as_bytes())?])).map_err(|e| e.to_string())
            }
            _ => CleartextSignedMessage::sign(&mut rng, &text, &*k.secret, &pw).map_err(|e| e.to_string()),
        }
    });
    let mut h = Fnv::default();
    h.str(&text);
    h.str(kind);
    h.str(jstr(plan, "reader"));
    h.str(signer);
    let nontrivial = text.lines().any(|l| l.starts_with('-') || l.ends_with([' ', '\t'])) || text.contains('\r') || text.contains("-----");
    rec.eval(h.0, nontrivial);
    rec.count(&format!("fault:F-benign-or-hostile:{kind}"));
    rec.count(&format!("signer:{signer}"));
    rec.sample(json!({"text": text, "channel": kind, "reader": jstr(plan, "reader"), "signer": signer}));
    let msg = match signed {
        Err(p) => {
            rec.violation("panic", &norm_loc(&p.loc), format!("cleartext signing panicked: {}", p.msg), plan.clone());
            return;
        }
        Ok(Err(e)) => {
            rec.count(&format!("skip:sign:{}", &e[..e.len().min(40)]));
            return;
        }
        Ok(Ok(m)) => m,
    };
    let site0 = format!("cleartext:{signer}");
    // what the object itself says before any transport
    let r = csf_signed_form(text.as_bytes());
    if msg.text() != model_escape(&text) {
        rec.violation("escape-differs", &site0, format!("text() is {:?}, reference dash-escape gives {:?}", msg.text(), model_escape(&text)), plan.clone());
        return;
    }
    if msg.signed_text().as_bytes() != r {
        rec.violation("signed-form-differs", &site0, format!("signed_text() of the fresh object is {:?}, the RFC signed form is {:?}", msg.signed_text(), String::from_utf8_lossy(&r)), plan.clone());
        return;
    }
    if msg.verify(&k.public).is_err() || (two && msg.verify(&k2.public).is_err()) {
        rec.violation("own-signature-rejected", &site0, format!("fresh cleartext object over {text:?} does not verify under its signer"), plan.clone());
        return;
    }
    let doc = match guard(|| msg.to_armored_string(ArmorOptions::default()).map_err(|e| e.to_string())) {
        Err(p) => {
            rec.violation("panic", &norm_loc(&p.loc), format!("to_armored_string panicked: {}", p.msg), plan.clone());
            return;
        }
        Ok(Err(e)) => {
            rec.violation("write-failed", &site0, e, plan.clone());
            return;
        }
        Ok(Ok(d)) => d,
    };
    // the same document written into a sink that takes only a few octets per call (pipe, socket): identical
    {
        let pick = ju64(plan, "pick");
        let sched = match pick % 4 {
            0 => crate::seams::Sched::Fixed(1),
            1 => crate::seams::Sched::Fixed(3 + (pick / 4 % 60) as usize),
            2 => crate::seams::Sched::List(vec![1 + (pick / 4 % 7) as usize, 64, 2, 4096]),
            _ => crate::seams::Sched::Full,
        };
        let (mut w, out, _log) = crate::seams::SimWriter::new(sched.clone(), vec![], 1 << 22);
        match guard(|| msg.to_armored_writer(&mut w, ArmorOptions::default()).map_err(|e| e.to_string())) {
            Err(p) => {
                rec.violation("panic", &norm_loc(&p.loc), format!("to_armored_writer panicked under short writes: {}", p.msg), plan.clone());
                return;
            }
            Ok(Err(e)) => {
                rec.violation("write-failed", &site0, format!("to_armored_writer fails into a sink with schedule {:?}: {e}", sched.to_json()), plan.clone());
                return;
            }
            Ok(Ok(())) => {
                let written = out.lock().unwrap().clone();
                if written != doc.as_bytes() {
                    rec.violation(
                        "writer-wrong",
                        &site0,
                        format!("to_armored_writer into a sink that accepts the schedule {:?} emits {} octets, to_armored_string {} (the document depends on how the sink takes it)", sched.to_json(), written.len(), doc.len()),
                        plan.clone(),
                    );
                    return;
                }
            }
        }
    }
    let Some((sep, end)) = split_doc(&doc) else {
        rec.violation("writer-illegal", &site0, "emitted document has no header/body/signature structure".into(), plan.clone());
        return;
    };
    let body = &doc[sep..end];
    // the emitted body must be the reference escape plus one terminating line ending
    if model_text_of_body(body).map(|t| csf_signed_form(t.as_bytes())) != Some(r.clone()) {
        rec.violation("writer-wrong", &site0, format!("emitted cleartext body {body:?} does not carry the text (reference reading gives a different signed form)"), plan.clone());
        return;
    }
    let body2 = channel(body, kind, ju64(plan, "pick"));
    let changed = body2 != body;
    if changed {
        rec.count(&format!("probe:channel-changed-bytes:{kind}"));
    }
    let doc2 = format!("{}{}{}", &doc[..sep], body2, &doc[end..]);
    // reference reading of what leaves the channel
    let spoof_risk = body2.split_inclusive('\n').any(|l| l.starts_with("-----")) || body2.starts_with("-----");
    let r2: Option<Vec<u8>> = if spoof_risk { None } else { model_text_of_body(&body2).map(|t| csf_signed_form(t.as_bytes())) };

    // ---- reader under a schedule
    let reader = jstr(plan, "reader");
    let sched = Sched::from_json(&plan["src_sched"]);
    let cap = jusize(plan, "cap").max(1);
    let parsed = guard(|| -> Result<CleartextSignedMessage, String> {
        match reader {
            "from_armor" => CleartextSignedMessage::from_armor(SimReader::new(Arc::new(doc2.clone().into_bytes()), sched.clone(), vec![]).0).map(|x| x.0).map_err(|e| e.to_string()),
            "from_armor_buf" => {
                let (input, _l) = seams::sim_bufread(Arc::new(doc2.clone().into_bytes()), sched.clone(), cap, vec![]);
                CleartextSignedMessage::from_armor_buf(input, DearmorOptions::default()).map(|x| x.0).map_err(|e| e.to_string())
            }
            _ => CleartextSignedMessage::from_string(&doc2).map(|x| x.0).map_err(|e| e.to_string()),
        }
    });
    let site = format!("cleartext:{kind}:{reader}");
    let m2 = match parsed {
        Err(p) => {
            rec.violation("panic", &norm_loc(&p.loc), format!("parsing the cleartext document panicked: {}", p.msg), plan.clone());
            return;
        }
        Ok(Err(e)) => {
            // rejected documents are fine when the channel was hostile or broke the framing; benign channels must parse
            let benign = matches!(kind, "identity" | "lf_to_crlf" | "crlf_to_lf" | "strip_blanks" | "add_blanks");
            if benign && !spoof_risk && r2.is_some() {
                rec.violation("not-accepted", &site, format!("document rejected after the benign channel {kind}: {e}"), plan.clone());
            }
            return;
        }
        Ok(Ok(m)) => m,
    };
    let verified = m2.verify(&k.public).is_ok() && (!two || m2.verify(&k2.public).is_ok());
    let verified_many = m2.verify_many(|i, s, t| s.verify(if i == 0 { &k.public } else { &k2.public }, t)).is_ok();
    if verified != verified_many {
        rec.violation("verify-interfaces-disagree", &site, format!("verify()={verified} but verify_many()={verified_many}"), plan.clone());
        return;
    }
    match r2 {
        None => {
            // a body line starts with five dashes: whatever the parser made of it, it must not verify as the original unless the signed form is intact
            if verified && m2.signed_text().as_bytes() != r {
                rec.violation("spoofed", &site, format!("document with a raw dash line verifies but its signed_text() {:?} is not the signed text", m2.signed_text()), plan.clone());
            }
        }
        Some(r2) => {
            if m2.signed_text().as_bytes() != r2 {
                rec.violation(
                    "signed-form-differs",
                    &site,
                    format!("after channel {kind}: signed_text() is {:?}, the reference signed form of the received body is {:?}", m2.signed_text(), String::from_utf8_lossy(&r2)),
                    plan.clone(),
                );
                return;
            }
            if (r2 == r) != verified {
                rec.violation(
                    if verified { "forged-accepted" } else { "valid-rejected" },
                    &site,
                    format!("after channel {kind}: signed form {} but verify = {verified} (text {text:?}, received body {body2:?})", if r2 == r { "unchanged" } else { "changed" }),
                    plan.clone(),
                );
                return;
            }
            if kind == "identity" && m2.text() != msg.text() {
                rec.violation("text-differs", &site, format!("text() read back {:?}, written {:?}", m2.text(), msg.text()), plan.clone());
            }
        }
    }
}
