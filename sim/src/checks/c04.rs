//! C04 — hostile input never panics: every processing entry point returns Ok or Err.
//! Scoped to what simulation contributes: structure-aware hostile artifacts (faults applied at
//! every layer the simulator can open because it owns the keys) delivered through hostile
//! schedules and I/O faults.

use std::io::Read;
use std::sync::Arc;

use pgp::{
    composed::{Any, CleartextSignedMessage, Deserializable, DetachedSignature, Message, SignedPublicKey, SignedSecretKey},
    packet::{PacketParser, SymEncryptedProtectedData},
    ser::Serialize,
    types::{EncryptionKey, EskType, KeyDetails, Password},
};
use serde_json::{json, Value};

use crate::{
    keys,
    model::framer::{deframe, frame, LenForm},
    rng::SimRng,
    runner::{guard, norm_loc, Check, Family, GenCtx, Rec, Tier},
    seams::{self, Consumer, Fault, Sched, LIVELOCK_MARK},
    util::{jbool, jstr, ju64, jusize, payload_from_json, Fnv, Planner},
    workload::{self, Opener, ReadSpec},
};

pub fn check() -> Check {
    Check {
        property: "C04",
        level: "exploration",
        rule: "structure-aware hostile artifacts: well-formed traffic produced by rpgp (messages over the builder's configuration space, certificates, locked and unlocked secret keys, detached signatures, cleartext documents) is damaged at a chosen layer - armor text, packet stream, inside the plaintext BEFORE encryption (re-encrypted with real rpgp under the session key the recipient holds), inside the compressed stream before compression - by bit flips, byte stores, truncation, range duplication/deletion/insertion and length-field edits; PKESK packets are built around attacker-chosen session-key plaintext of every length 0..40 x sampled (thorough: every) first octet for each public-key algorithm in the pool; for ECDH recipients the byzantine peer does KDF and AES key wrap itself (ephemeral point = the curve's base point, so the shared secret is the recipient's public point) and chooses the PADDED plaintext: every padded length 8..56 x every value of the trailing padding octet x 3 fillers; every one-octet parameter field of SKESK, secret-key S2K, signature, one-pass, literal and compressed headers is swept over 0..255. Everything is delivered through hostile schedules (1 byte per read, BufReader capacity 1) and with transient/hard I/O faults to the processing entry points: parse, dearmor, decrypt with the matching key or password, decompress, drain, verify, unlock, re-serialize. Deeply nested structures (embedded signatures inside embedded signatures in v4 and v6 signature packets, compressed packets inside compressed packets) are processed in a child process on a thread with a 2 MiB stack (the default of std::thread): a child killed by a signal is a stack overflow. Oracle: no panic, no stack overflow, no seam-call livelock (step budget), no run longer than the 120 s watchdog. Non-trivial: the artifact was actually changed; distinct = (artifact shape, layer, mutation) hash.",
        families: vec![
            Family { name: "traffic", gen: gen_traffic, run: run_traffic },
            Family { name: "byz_pkesk", gen: gen_pkesk, run: run_pkesk },
            Family { name: "byz_ecdh", gen: gen_ecdh, run: run_ecdh },
            Family { name: "byz_sig_mpis", gen: gen_sig_mpis, run: run_sig_mpis },
            Family { name: "byz_cross_alg", gen: gen_cross_alg, run: run_cross_alg },
            Family { name: "deep_nesting", gen: gen_deep, run: run_deep },
            Family { name: "byz_octets", gen: gen_octets, run: run_octets },
        ],
        assumptions: vec![
            "this decides the structure-aware and I/O-fault part of the property's quantifier; unstructured 'all byte strings' fuzzing is another technique and not claimed",
            "accessors of rpgp readers are not called after the reader returned an error (poisoned state by design)",
            "Argon2 parameter octets that rpgp accepts but that cost more than 64 MiB are skipped for cost (their refusal beyond the ceiling is C19)",
        ],
        real: vec!["all rpgp parsing / dearmor / decrypt / decompress / read / verify / unlock / serialize entry points", "real encryption of attacker-chosen plaintext (stream encryptors, EncryptionKey::encrypt)"],
        stubs: vec!["byzantine peer (PKESK around chosen plaintext, parameter-octet editor)", "layer-aware mutator with the independent deframer", "SimReader schedules and faults", "watchdog"],
    }
}

// ------------------------------------------------------------------ processing entry points

/// feed `bytes` to every entry point that takes this kind of artifact; panics are caught by the caller
fn process(kind: &str, bytes: &Arc<Vec<u8>>, armored: bool, opener: &Opener, sched: &Sched, cap: usize, faults: &[Fault], consumer: &Consumer, verifiers: &[&'static str]) -> (u64, bool) {
    let mk = || seams::sim_bufread(bytes.clone(), sched.clone(), cap, faults.to_vec());
    let mut calls = 0u64;
    let mut budget = false;
    let mut note = |l: &seams::SharedLog| {
        let s = seams::snap(l);
        calls += s.calls;
        budget |= s.budget_exceeded;
    };
    match kind {
        "msg" => {
            let (input, l) = mk();
            let spec = ReadSpec { armor: armored, opener: opener.clone(), consumer, verifiers: verifiers.to_vec(), max: 1 << 22, streaming_v1: false, v1_limit: None, opts: 4 };
            let _ = workload::read_message(input, &spec);
            note(&l);
            // non-standard containers the recipient opted into (GnuPG AEAD + v5 SKESK, legacy SED)
            if !matches!(opener, Opener::None) {
                let (input, l) = mk();
                let spec = ReadSpec { armor: armored, opener: opener.clone(), consumer, verifiers: verifiers.to_vec(), max: 1 << 22, streaming_v1: false, v1_limit: None, opts: 7 };
                let _ = workload::read_message(input, &spec);
                note(&l);
            }
            // streaming SEIPDv1 mode releases unauthenticated data to the inner parsers
            if let Opener::SessionKey(_) = opener {
                let (input, l) = mk();
                let spec = ReadSpec { armor: armored, opener: opener.clone(), consumer, verifiers: verifiers.to_vec(), max: 1 << 22, streaming_v1: true, v1_limit: None, opts: 4 };
                let _ = workload::read_message(input, &spec);
                note(&l);
            }
        }
        "pubkey" | "seckey" => {
            let (input, l) = mk();
            if kind == "pubkey" {
                let r = if armored { SignedPublicKey::from_armor_single_buf(input).map(|x| x.0) } else { SignedPublicKey::from_bytes(input) };
                if let Ok(k) = r {
                    let _ = k.verify_bindings();
                    let _ = k.to_bytes();
                    let _ = k.to_armored_string(Default::default());
                    let _ = k.fingerprint();
                    let _ = Serialize::write_len(&k);
                }
            } else {
                let r = if armored { SignedSecretKey::from_armor_single_buf(input).map(|x| x.0) } else { SignedSecretKey::from_bytes(input) };
                if let Ok(k) = r {
                    let _ = k.verify_bindings();
                    let _ = k.to_bytes();
                    let _ = Serialize::write_len(&k);
                    for pw in ["", keys::KEY_PW] {
                        let _ = k.primary_key.unlock(&Password::from(pw), |_, _| Ok(()));
                        for s in &k.secret_subkeys {
                            let _ = s.key.unlock(&Password::from(pw), |_, _| Ok(()));
                        }
                    }
                    let _ = k.to_public_key().to_bytes();
                }
            }
            note(&l);
        }
        "sig" => {
            let (input, l) = mk();
            let r = if armored { DetachedSignature::from_armor_single_buf(input).map(|x| x.0) } else { DetachedSignature::from_bytes(input) };
            if let Ok(s) = r {
                for v in verifiers {
                    let _ = s.verify(&keys::get(v).public, b"signed content");
                }
                let _ = s.to_bytes();
                let _ = s.to_armored_string(Default::default());
            }
            note(&l);
        }
        "cleartext" => {
            let (input, l) = mk();
            if let Ok((m, _)) = CleartextSignedMessage::from_armor_buf(input, Default::default()) {
                for v in verifiers {
                    let _ = m.verify(&keys::get(v).public);
                }
                let _ = m.signed_text();
                let _ = m.to_armored_string(Default::default());
            }
            note(&l);
        }
        _ => {}
    }
    // generic entry points over the same bytes
    if armored {
        let (input, l) = mk();
        let mut d = pgp::armor::Dearmor::new(input);
        let _ = seams::drain_read(&mut d, consumer, 1 << 22);
        note(&l);
        let (input, l) = mk();
        if let Ok((any, _)) = Any::from_armor_buf(input) {
            match any {
                Any::Message(mut m) => {
                    let _ = seams::drain(&mut m, &Consumer::ReadLoop(vec![512]), 1 << 20);
                }
                Any::PublicKey(k) => {
                    let _ = k.verify_bindings();
                }
                Any::SecretKey(k) => {
                    let _ = k.verify_bindings();
                }
                Any::Signature(s) => {
                    let _ = s.to_bytes();
                }
                Any::Cleartext(c) => {
                    let _ = c.signed_text();
                }
            }
        }
        note(&l);
    } else {
        let (input, l) = mk();
        for (i, p) in PacketParser::new(input).enumerate() {
            if i > 5000 {
                break;
            }
            if let Ok(p) = p {
                let _ = p.to_bytes();
                let _ = Serialize::write_len(&p);
            }
        }
        note(&l);
    }
    (calls, budget)
}

// ------------------------------------------------------------------ mutations

fn mutate_bytes(b: &[u8], m: &Value) -> Vec<u8> {
    let mut v = b.to_vec();
    if v.is_empty() {
        return v;
    }
    let off = jusize(m, "off") % v.len();
    match jstr(m, "op") {
        "flip" => v[off] ^= 1 << (jusize(m, "bit") % 8),
        "set" => v[off] = jusize(m, "val") as u8,
        "trunc" => v.truncate(off),
        "dup" => {
            let n = jusize(m, "n").min(v.len() - off).max(1);
            let seg = v[off..off + n].to_vec();
            for (i, x) in seg.into_iter().enumerate() {
                v.insert(off + n + i, x);
            }
        }
        "del" => {
            let n = jusize(m, "n").min(v.len() - off).max(1);
            v.drain(off..off + n);
        }
        "ins" => {
            let ins = Planner::new(ju64(m, "key"), "ins", 0).bytes(jusize(m, "n").max(1));
            for (i, x) in ins.into_iter().enumerate() {
                v.insert(off + i, x);
            }
        }
        "len" => {
            // edit the length octets of the packet that contains `off` (found by the deframer)
            if let Ok(pk) = deframe(&v) {
                if let Some(p) = pk.iter().find(|p| p.start <= off && off < p.end) {
                    let at = p.start + 1;
                    if at < v.len() {
                        v[at] = jusize(m, "val") as u8;
                    }
                }
            }
        }
        _ => {}
    }
    v
}

fn plan_mutation(p: &mut Planner) -> Value {
    let op = *p.pick(&["flip", "flip", "flip", "set", "set", "trunc", "dup", "del", "ins", "len"]);
    json!({"op": op, "off": p.u64() % (1 << 30), "bit": p.below(8), "val": *p.pick(&[0usize, 1, 2, 3, 4, 6, 0x7f, 0x80, 0xc0, 0xe0, 0xfe, 0xff, 18, 8, 11]), "n": *p.pick(&[1usize, 2, 16, 17, 512, 4000]), "key": p.u64()})
}

const LAYERS: [&str; 5] = ["packets", "packets", "armor", "inner", "precompress"];
const KINDS: [&str; 8] = ["msg", "msg", "msg", "msg", "pubkey", "seckey", "sig", "cleartext"];

fn gen_traffic(ctx: &GenCtx) -> Vec<Value> {
    let n = ctx.n(2600, 80_000);
    let thorough = ctx.tier == Tier::Thorough;
    (0..n)
        .map(|i| {
            let mut p = Planner::new(ctx.seed, "c04.traffic", i as u64);
            let kind = *p.pick(&KINDS);
            let mut layer = *p.pick(&LAYERS);
            let mut cfg = workload::plan_cfg(&mut p, thorough, false);
            cfg["armor"] = json!(false);
            cfg["source"] = json!(*p.pick(&["bytes", "reader"]));
            if kind != "msg" && (layer == "inner" || layer == "precompress") {
                layer = "packets";
            }
            if kind == "cleartext" {
                layer = "armor";
            }
            if layer == "inner" && jstr(&cfg["enc"], "k") == "none" {
                cfg["enc"] = json!({"k":"v2","sym":"aes128","aead":"ocb","chunk": p.range(0,3)});
            }
            if layer == "precompress" && jstr(&cfg, "compression") == "none" {
                cfg["compression"] = json!(*p.pick(&["zip", "zlib", "bzip2"]));
            }
            let len = if p.chance(1, 8) { p.range(0, 20_000) } else { p.range(0, 1500) };
            let nm = 160;
            let muts: Vec<Value> = (0..nm).map(|_| plan_mutation(&mut p)).collect();
            let fault = match p.below(6) {
                0 => json!([{"at_call": p.below(40), "op":"read", "kind":"interrupted"}]),
                1 => json!([{"at_call": p.below(40), "op":"read", "kind": *p.pick(&["other","unexpected_eof","would_block"])}]),
                _ => json!([]),
            };
            json!({"kind": kind, "layer": layer, "cfg": cfg, "payload": {"gen": *p.pick(&["text","random","lowent"]), "len": len, "key": p.u64()},
                   "key": *p.pick(&["ed25519-v4","ed25519-v6","p256-v4","ed25519-v4-locked","ed25519-v6-locked","rsa-v4","edlegacy-v4","ed448-v6"]),
                   "muts": muts, "src_sched": if p.chance(1,3) { json!({"k":"fixed","n":1}) } else { p.sched().to_json() },
                   "cap": *p.pick(&[1usize, 1, 2, 7, 64, 8192]), "faults": fault, "consumer": p.consumer(false).to_json(), "opener": p.below(8)})
        })
        .collect()
}

/// encrypt an arbitrary inner packet stream under the message's session key, with real rpgp
pub fn encrypt_inner(inner: &[u8], cfg: &Value, sk: &pgp::composed::PlainSessionKey, rng_key: u64) -> Option<Vec<u8>> {
    let mut rng = SimRng::new(rng_key, "c04enc", false);
    match sk {
        // legacy "Symmetrically Encrypted Data" container (tag 9, no integrity protection): recipients
        // that opted in with enable_legacy() parse whatever it decrypts to
        pgp::composed::PlainSessionKey::V3_4 { sym_alg, key } if rng_key % 3 == 0 => {
            let body = sym_alg.encrypt(&mut rng, key.as_ref(), inner).ok()?;
            frame(9, &body, &LenForm::NewMinimal)
        }
        pgp::composed::PlainSessionKey::V3_4 { sym_alg, key } => {
            let mut e = sym_alg.stream_encryptor(&mut rng, key.as_ref(), inner).ok()?;
            let mut body = vec![1u8];
            e.read_to_end(&mut body).ok()?;
            frame(18, &body, &LenForm::NewMinimal)
        }
        pgp::composed::PlainSessionKey::V6 { key } => {
            let sym = workload::sym(jstr(&cfg["enc"], "sym"));
            let aead = workload::aead(jstr(&cfg["enc"], "aead"));
            let cs = workload::chunk_size(ju64(&cfg["enc"], "chunk"));
            let salt = [7u8; 32];
            let mut e = SymEncryptedProtectedData::encrypt_seipdv2_stream(sym, aead, cs, key.as_ref(), salt, inner).ok()?;
            let mut body = vec![2u8, sym.into(), aead.into(), cs.into()];
            body.extend_from_slice(&salt);
            e.read_to_end(&mut body).ok()?;
            frame(18, &body, &LenForm::NewMinimal)
        }
        _ => None,
    }
}

fn compress_with(alg: &str, inner: &[u8]) -> Option<Vec<u8>> {
    use std::io::Write;
    let mut body;
    match alg {
        "zip" => {
            body = vec![1u8];
            let mut e = flate2::write::DeflateEncoder::new(&mut body, flate2::Compression::default());
            e.write_all(inner).ok()?;
            e.finish().ok()?;
        }
        "zlib" => {
            body = vec![2u8];
            let mut e = flate2::write::ZlibEncoder::new(&mut body, flate2::Compression::default());
            e.write_all(inner).ok()?;
            e.finish().ok()?;
        }
        _ => {
            body = vec![3u8];
            let mut e = bzip2::write::BzEncoder::new(&mut body, bzip2::Compression::default());
            e.write_all(inner).ok()?;
            e.finish().ok()?;
        }
    }
    frame(8, &body, &LenForm::NewMinimal)
}

fn run_traffic(plan: &Value, rec: &mut Rec) {
    // consumers of this check call a reader again after it returned an error
    seams::set_poke_after_error(true);
    let kind = jstr(plan, "kind");
    let layer = jstr(plan, "layer");
    let cfg = &plan["cfg"];
    let k = keys::get(jstr(plan, "key"));
    let payload = payload_from_json(&plan["payload"]);
    let mut opener = Opener::None;
    let mut verifiers: Vec<&'static str> = vec![k.name];
    // ---- the well-formed artifact and the layer the mutations apply to
    // base: bytes that get mutated; finish(mutated) -> bytes handed to rpgp
    let mut sk = None;
    let base: Vec<u8> = match kind {
        "pubkey" => k.public.to_bytes().unwrap_or_default(),
        "seckey" => k.secret.to_bytes().unwrap_or_default(),
        "sig" => {
            let mut rng = SimRng::new(5, "c04sig", false);
            DetachedSignature::sign_binary_data(&mut rng, &*k.secret, &Password::from(k.password), pgp::crypto::hash::HashAlgorithm::Sha512, &b"signed content"[..]).ok().and_then(|s| s.to_bytes().ok()).unwrap_or_default()
        }
        "cleartext" => {
            let mut rng = SimRng::new(5, "c04csf", false);
            let text = String::from_utf8_lossy(&payload_from_json(&json!({"gen":"text","len": payload.len().min(400), "key": 9}))).into_owned();
            CleartextSignedMessage::sign(&mut rng, &text, &*k.secret, &Password::from(k.password)).ok().and_then(|m| m.to_armored_bytes(Default::default()).ok()).unwrap_or_default()
        }
        _ => {
            verifiers = workload::verifier_names(cfg);
            match layer {
                "inner" | "precompress" => {
                    // inner stream = the same configuration without encryption (and without compression for precompress)
                    let mut inner_cfg = cfg.clone();
                    inner_cfg["enc"] = json!({"k":"none"});
                    inner_cfg["recipients"] = json!([]);
                    inner_cfg["passwords"] = json!([]);
                    if layer == "precompress" {
                        inner_cfg["compression"] = json!("none");
                    }
                    let (b, _) = workload::build_reference(&inner_cfg, &payload, ju64(cfg, "rng_key"), false);
                    // the recipient's session key comes from the real encrypted build
                    let (_full, info) = workload::build_reference(cfg, &payload, ju64(cfg, "rng_key"), false);
                    sk = workload::session_key(&info);
                    b.unwrap_or_default()
                }
                _ => {
                    let (b, info) = workload::build_reference(cfg, &payload, ju64(cfg, "rng_key"), false);
                    opener = workload::default_opener(cfg, &info, ju64(plan, "opener") as usize);
                    b.unwrap_or_default()
                }
            }
        }
    };
    if base.is_empty() {
        rec.count("skip:artifact");
        return;
    }
    let armored_text: Option<Vec<u8>> = if layer == "armor" && kind != "cleartext" {
        let typ = match kind {
            "pubkey" => pgp::armor::BlockType::PublicKey,
            "seckey" => pgp::armor::BlockType::PrivateKey,
            "sig" => pgp::armor::BlockType::Signature,
            _ => pgp::armor::BlockType::Message,
        };
        let mut t = Vec::new();
        pgp::armor::write(&crate::checks::c09b::RawBytes(base.clone()), typ, &mut t, None, true).ok();
        Some(t)
    } else {
        None
    };
    let target: &[u8] = armored_text.as_deref().unwrap_or(&base);
    let armored = layer == "armor";
    let finish = |m: Vec<u8>| -> Option<Vec<u8>> {
        match layer {
            "inner" => encrypt_inner(&m, cfg, sk.as_ref()?, ju64(cfg, "rng_key")),
            "precompress" => {
                let c = compress_with(jstr(cfg, "compression"), &m)?;
                if jstr(&cfg["enc"], "k") == "none" {
                    Some(c)
                } else {
                    encrypt_inner(&c, cfg, sk.as_ref()?, ju64(cfg, "rng_key"))
                }
            }
            _ => Some(m),
        }
    };
    if matches!(layer, "inner" | "precompress") {
        match &sk {
            Some(s) => opener = Opener::SessionKey(s.clone()),
            None if jstr(&cfg["enc"], "k") != "none" => {
                rec.count("skip:no-session-key");
                return;
            }
            None => {}
        }
    }
    let sched = Sched::from_json(&plan["src_sched"]);
    let cap = jusize(plan, "cap").max(1);
    let faults = seams::faults_from_json(plan.get("faults"));
    let consumer = Consumer::from_json(&plan["consumer"]);
    let mut shape = Fnv::default();
    shape.str(kind);
    shape.str(layer);
    shape.str(&cfg["enc"].to_string());
    shape.str(jstr(cfg, "compression"));
    shape.u64(target.len() as u64);
    rec.count(&format!("layer:{layer}"));
    rec.count(&format!("kind:{kind}"));
    rec.count(&format!("sched:src:{}", sched.label()));
    for f in &faults {
        rec.count(&format!("fault:{}", f.label()));
    }
    rec.sample(json!({"kind": kind, "layer": layer, "enc": cfg["enc"], "compression": cfg["compression"], "target_len": target.len(), "mutations": plan["muts"].as_array().map(|a| a.len()), "src_sched": plan["src_sched"], "cap": cap, "faults": plan["faults"]}));

    let muts: Vec<Value> = match plan.get("only") {
        Some(o) => vec![o.clone()],
        None => {
            let mut v = vec![json!({"op":"none"})];
            v.extend(plan["muts"].as_array().cloned().unwrap_or_default());
            v
        }
    };
    for m in muts {
        let mutated = mutate_bytes(target, &m);
        let changed = mutated != target;
        let Some(bytes) = finish(mutated) else {
            rec.count("skip:finish");
            continue;
        };
        let bytes = Arc::new(bytes);
        let mut h = Fnv(shape.0);
        h.str(&m.to_string());
        rec.count(&format!("fault:F-mutate:{}", jstr(&m, "op")));
        let mut vplan = plan.clone();
        vplan["only"] = m.clone();
        let r = guard(|| process(kind, &bytes, armored, &opener, &sched, cap, &faults, &consumer, &verifiers));
        match r {
            Err(p) if p.msg.contains(LIVELOCK_MARK) => {
                rec.eval(h.0, changed);
                rec.violation("livelock", &format!("{kind}:{layer}"), format!("kept calling the source beyond twice the step budget after mutation {m}"), vplan);
            }
            Err(p) => {
                rec.eval(h.0, changed);
                rec.violation("panic", &norm_loc(&p.loc), format!("{kind} damaged at layer {layer} by {m} (schedule {}, cap {cap}, faults {}): {}", plan["src_sched"], plan["faults"], p.msg), vplan);
            }
            Ok((calls, budget)) => {
                rec.seam_calls += calls;
                rec.eval(h.0, changed);
                if budget {
                    rec.violation("livelock", &format!("{kind}:{layer}"), format!("source step budget exceeded after mutation {m}"), vplan);
                }
            }
        }
    }
}

// ------------------------------------------------------------------ byzantine PKESK

const PK_KEYS: [&str; 10] = ["ed25519-v4", "ed25519-v6", "edlegacy-v4", "ed448-v6", "p256-v4", "p384-v6", "p521-v4", "rsa-v4", "ed25519-v4-locked", "dsa-v4"];

fn gen_pkesk(ctx: &GenCtx) -> Vec<Value> {
    let mut plans = Vec::new();
    for key in PK_KEYS {
        for v6 in [false, true] {
            for len in 0..=40usize {
                plans.push(json!({"key": key, "v6": v6, "len": len, "all_first": ctx.tier == Tier::Thorough, "seed": ctx.seed}));
            }
        }
    }
    plans
}

fn run_pkesk(plan: &Value, rec: &mut Rec) {
    // consumers of this check call a reader again after it returned an error
    seams::set_poke_after_error(true);
    let k = keys::get(jstr(plan, "key"));
    let v6 = jbool(plan, "v6");
    let len = jusize(plan, "len");
    let sub = &k.public.public_subkeys[0];
    let expensive = matches!(k.name, "rsa-v4" | "p521-v4" | "p384-v6" | "dsa-v4");
    let firsts: Vec<usize> = match plan.get("only") {
        Some(o) => vec![jusize(o, "first")],
        None if jbool(plan, "all_first") && !expensive => (0..256).collect(),
        None => {
            let mut v = vec![0usize, 1, 2, 3, 4, 7, 8, 9, 10, 11, 12, 13, 14, 100, 110, 111, 128, 254, 255];
            let mut p = Planner::new(ju64(plan, "seed"), "c04.first", len as u64);
            for _ in 0..if expensive { 3 } else { 20 } {
                v.push(p.below(256));
            }
            if expensive {
                v.truncate(12);
            }
            v
        }
    };
    // a real container to go with the ESK
    let cfg = if v6 {
        json!({"source":"bytes","enc":{"k":"v2","sym":"aes128","aead":"ocb","chunk":0},"rng_key":1})
    } else {
        json!({"source":"bytes","enc":{"k":"v1","sym":"aes128"},"rng_key":1})
    };
    let (container, _) = workload::build_reference(&cfg, b"container", 1, false);
    let Ok(container) = container else { return };
    rec.sample(json!({"key": k.name, "pkesk": if v6 { "v6" } else { "v3" }, "plaintext_len": len, "first_octets": firsts.len()}));
    for first in firsts {
        let mut plain = Planner::new(first as u64 * 41 + len as u64, "skplain", 0).bytes(len);
        if len > 0 {
            plain[0] = first as u8;
        }
        let mut h = Fnv::default();
        h.str(k.name);
        h.u64(v6 as u64);
        h.u64(len as u64);
        h.u64(first as u64);
        rec.eval(h.0, true);
        rec.count("fault:F-byz:pkesk-chosen-plaintext");
        let mut vplan = plan.clone();
        vplan["only"] = json!({"first": first});
        let r = guard(|| -> Result<(), String> {
            let mut rng = SimRng::new(first as u64, "pkesk", false);
            let typ = if v6 { EskType::V6 } else { EskType::V3_4 };
            let values = sub.encrypt(&mut rng, &plain, typ).map_err(|e| format!("encrypt refused: {e}"))?;
            let hdr = pgp::packet::PacketHeader::new_fixed(pgp::types::Tag::PublicKeyEncryptedSessionKey, 0);
            let pkesk = if v6 {
                pgp::packet::PublicKeyEncryptedSessionKey::V6 { packet_header: hdr, fingerprint: Some(sub.fingerprint()), pk_algo: sub.algorithm(), values }
            } else {
                pgp::packet::PublicKeyEncryptedSessionKey::V3 { packet_header: hdr, id: sub.legacy_key_id(), pk_algo: sub.algorithm(), values }
            };
            let body = pkesk.to_bytes().map_err(|e| e.to_string())?;
            let mut stream = frame(1, &body, &LenForm::NewMinimal).unwrap();
            stream.extend_from_slice(&container);
            let m = Message::from_bytes(&stream[..]).map_err(|e| e.to_string())?;
            let mut m = m.decrypt(&Password::from(k.password), &k.secret).map_err(|e| e.to_string())?;
            let _ = seams::drain(&mut m, &Consumer::ReadLoop(vec![64]), 1 << 16);
            Ok(())
        });
        match r {
            Err(p) => rec.violation("panic", &norm_loc(&p.loc), format!("PKESK {} to {} around attacker-chosen session-key plaintext of length {len}, first octet {first}: {}", if v6 { "v6" } else { "v3" }, k.name, p.msg), vplan),
            Ok(Err(e)) if e.starts_with("encrypt refused") => rec.count("probe:encrypt-refused-this-plaintext"),
            Ok(_) => {}
        }
    }
}

// ------------------------------------------------------------------ ECDH: attacker-chosen padded plaintext

const ECDH_KEYS: [&str; 4] = ["edlegacy-v4", "p256-v4", "p384-v6", "p521-v4"];

fn gen_ecdh(_ctx: &GenCtx) -> Vec<Value> {
    let mut plans = Vec::new();
    for key in ECDH_KEYS {
        for padded_len in [8usize, 16, 24, 32, 40, 48, 56] {
            for filler in ["pad", "material", "random"] {
                plans.push(json!({"key": key, "padded_len": padded_len, "filler": filler}));
            }
        }
    }
    plans
}

/// base point of the recipient's curve as an ECDH MPI value, and the recipient's public point as the
/// shared secret that results from it (X(d * G) = X(Q))
fn ecdh_forgery_inputs(params: &[u8]) -> Option<(Vec<u8>, Vec<u8>, Vec<u8>, u8, u8)> {
    let oid_len = *params.first()? as usize;
    let oid = params.get(1..1 + oid_len)?.to_vec();
    let rest = params.get(1 + oid_len..)?;
    let bits = u16::from_be_bytes([*rest.first()?, *rest.get(1)?]) as usize;
    let plen = bits.div_ceil(8);
    let point = rest.get(2..2 + plen)?;
    let kdf = rest.get(2 + plen..)?;
    let (hash, sym) = (*kdf.get(2)?, *kdf.get(3)?);
    let g: &str = match plen {
        33 => "400900000000000000000000000000000000000000000000000000000000000000",
        65 => "046B17D1F2E12C4247F8BCE6E563A440F277037D812DEB33A0F4A13945D898C2964FE342E2FE1A7F9B8EE7EB4A7C0F9E162BCE33576B315ECECBB6406837BF51F5",
        97 => "04AA87CA22BE8B05378EB1C71EF320AD746E1D3B628BA79B9859F741E082542A385502F25DBF55296C3A545E3872760AB73617DE4A96262C6F5D9E98BF9292DC29F8F41DBD289A147CE9DA3113B5F0B8C00A60B1CE1D7E819D7A431D7C90EA0E5F",
        133 => "0400C6858E06B70404E9CD9E3ECB662395B4429C648139053FB521F828AF606B4D3DBAA14B5E77EFE75928FE1DC127A2FFA8DE3348B3C1856A429BF97E7E31C2E5BD66011839296A789A3BC0045C8A5FB42C7D1BD998F54449579B446817AFBD17273E662C97EE72995EF42640C550B9013FAD0761353C7086A272C24088BE94769FD16650",
        _ => return None,
    };
    let g = hex::decode(g).ok()?;
    let shared = if plen == 33 { point[1..].to_vec() } else { point[1..1 + (plen - 1) / 2].to_vec() };
    Some((oid, g, shared, hash, sym))
}

fn run_ecdh(plan: &Value, rec: &mut Rec) {
    // consumers of this check call a reader again after it returned an error
    seams::set_poke_after_error(true);
    let k = keys::get(jstr(plan, "key"));
    let sub = &k.public.public_subkeys[0];
    let padded_len = jusize(plan, "padded_len");
    let filler = jstr(plan, "filler");
    let Some((oid, g, shared, hash, sym)) = sub.public_params().to_bytes().ok().and_then(|b| ecdh_forgery_inputs(&b)) else {
        rec.count("skip:not-an-ecdh-subkey");
        return;
    };
    let hash_alg = pgp::crypto::hash::HashAlgorithm::from(hash);
    let sym_alg = pgp::crypto::sym::SymmetricKeyAlgorithm::from(sym);
    let param = pgp::crypto::ecdh::build_ecdh_param(&oid, sym_alg, hash_alg, sub.fingerprint().as_bytes());
    let Ok(kek) = pgp::crypto::ecdh::kdf(hash_alg, &shared, sym_alg.key_size(), &param) else {
        rec.count("skip:kdf");
        return;
    };
    let cfg = json!({"source":"bytes","enc":{"k":"v1","sym":"aes128"},"rng_key":1});
    let (container, info) = workload::build_reference(&cfg, b"container", 1, false);
    let (Ok(container), Some(session_key)) = (container, info.session_key.clone()) else {
        rec.count("skip:container");
        return;
    };
    let session_key: Vec<u8> = session_key.as_ref().to_vec();
    // well-formed session key material: algorithm octet, key, checksum
    let mut material = vec![7u8];
    material.extend_from_slice(&session_key);
    let sum: u16 = session_key.iter().fold(0u16, |a, b| a.wrapping_add(*b as u16));
    material.extend_from_slice(&sum.to_be_bytes());
    let forge = |padded: &[u8]| -> Option<Vec<u8>> {
        let wrapped = pgp::crypto::aes_kw::wrap(&kek, padded).ok()?;
        let mut body = vec![3u8];
        body.extend_from_slice(sub.legacy_key_id().as_ref());
        body.push(18);
        let first = *g.first()?;
        let bits = (g.len() - 1) * 8 + (8 - first.leading_zeros() as usize);
        body.extend_from_slice(&(bits as u16).to_be_bytes());
        body.extend_from_slice(&g);
        body.push(wrapped.len() as u8);
        body.extend_from_slice(&wrapped);
        let mut stream = frame(1, &body, &LenForm::NewMinimal)?;
        stream.extend_from_slice(&container);
        Some(stream)
    };
    let open = |stream: &[u8]| -> Result<Vec<u8>, String> {
        let m = Message::from_bytes(stream).map_err(|e| e.to_string())?;
        let mut m = m.decrypt(&Password::from(k.password), &k.secret).map_err(|e| e.to_string())?;
        let (data, end) = seams::drain(&mut m, &Consumer::ReadLoop(vec![64]), 1 << 16);
        end.map_err(|e| e.to_string())?;
        Ok(data)
    };
    // control (validates the stub): honest padding to 40 octets decrypts
    if plan.get("only").is_none() {
        let mut honest = material.clone();
        let padn = 40 - honest.len();
        honest.resize(40, padn as u8);
        match forge(&honest).map(|s| guard(|| open(&s))) {
            Some(Ok(Ok(d))) if d == b"container" => rec.count("probe:forged-ecdh-control-decrypts"),
            Some(Err(p)) => rec.violation("panic", &norm_loc(&p.loc), format!("ECDH PKESK with honest padding: {}", p.msg), plan.clone()),
            other => {
                rec.count(&format!("harness:forged-ecdh-control-failed:{}", k.name));
                if std::env::var("VERIF_DEBUG").is_ok() {
                    eprintln!("ecdh control for {}: {:?}", k.name, other.map(|r| r.map_err(|p| p.msg)));
                }
                return;
            }
        }
    }
    let lasts: Vec<usize> = match plan.get("only") {
        Some(o) => vec![jusize(o, "last")],
        None => (0..256).collect(),
    };
    rec.sample(json!({"key": k.name, "padded_len": padded_len, "filler": filler, "last_octets": lasts.len()}));
    for last in lasts {
        let mut padded: Vec<u8> = match filler {
            "pad" => vec![last as u8; padded_len],
            "material" => {
                let mut v = material.clone();
                v.resize(padded_len.max(1), last as u8);
                v.truncate(padded_len);
                v
            }
            _ => Planner::new(last as u64 * 64 + padded_len as u64, "ecdhpad", 0).bytes(padded_len),
        };
        if let Some(l) = padded.last_mut() {
            *l = last as u8;
        }
        let mut h = Fnv::default();
        h.str(k.name);
        h.str(filler);
        h.u64(padded_len as u64);
        h.u64(last as u64);
        rec.eval(h.0, true);
        rec.count("fault:F-byz:ecdh-chosen-padding");
        let Some(stream) = forge(&padded) else { continue };
        let mut vplan = plan.clone();
        vplan["only"] = json!({"last": last});
        match guard(|| open(&stream)) {
            Err(p) => rec.violation("panic", &norm_loc(&p.loc), format!("ECDH PKESK to {} around attacker-chosen padded plaintext ({padded_len} octets, filler {filler}, trailing octet {last}): {}", k.name, p.msg), vplan),
            Ok(Ok(_)) => rec.count("probe:forged-ecdh-decrypts"),
            Ok(Err(_)) => {}
        }
    }
}

// ------------------------------------------------------------------ signature values of attacker-chosen MPI lengths

const SIG_KEYS: [&str; 7] = ["edlegacy-v4", "p256-v4", "p384-v6", "p521-v4", "k256-v4", "dsa-v4", "rsa-v4"];
const MPI_LENS: [usize; 29] = [0, 1, 2, 3, 19, 20, 21, 22, 31, 32, 33, 34, 47, 48, 49, 50, 64, 65, 66, 67, 68, 127, 128, 129, 130, 255, 256, 257, 258];

fn gen_sig_mpis(_ctx: &GenCtx) -> Vec<Value> {
    let mut plans = Vec::new();
    for key in SIG_KEYS {
        for style in ["high-bit", "low-bit", "zero-lead"] {
            for l0 in MPI_LENS {
                plans.push(json!({"key": key, "style": style, "l0": l0}));
            }
        }
    }
    plans
}

/// offset in a v4 / v6 signature packet body where the algorithm-specific signature value starts
fn sig_value_offset(body: &[u8]) -> Option<usize> {
    let wide = match *body.first()? {
        4 => false,
        6 => true,
        _ => return None,
    };
    let mut at = 4;
    for _ in 0..2 {
        let n = if wide { u32::from_be_bytes(body.get(at..at + 4)?.try_into().ok()?) as usize } else { u16::from_be_bytes(body.get(at..at + 2)?.try_into().ok()?) as usize };
        at += if wide { 4 } else { 2 } + n;
    }
    at += 2; // left 16 bits of the hash
    if wide {
        at += 1 + *body.get(at)? as usize; // salt
    }
    (at <= body.len()).then_some(at)
}

fn forged_mpi(len: usize, style: &str, key: u64) -> Vec<u8> {
    let mut v = Planner::new(key, "sigmpi", len as u64).bytes(len);
    if let Some(f) = v.first_mut() {
        *f = match style {
            "high-bit" => *f | 0x80,
            "low-bit" => 1,
            _ => 0, // not normalized: the bit count below still claims the full width
        };
    }
    let bits = match (style, v.first()) {
        (_, None) => 0,
        ("zero-lead", _) => len * 8,
        (_, Some(f)) => (len - 1) * 8 + (8 - f.leading_zeros() as usize),
    };
    let mut out = (bits as u16).to_be_bytes().to_vec();
    out.extend_from_slice(&v);
    out
}

fn run_sig_mpis(plan: &Value, rec: &mut Rec) {
    seams::set_poke_after_error(true);
    let k = keys::get(jstr(plan, "key"));
    let style = jstr(plan, "style");
    let l0 = jusize(plan, "l0");
    let content = b"content under a signature whose value is re-made";
    let hash = match k.name {
        "p384-v6" => pgp::crypto::hash::HashAlgorithm::Sha384,
        "p521-v4" => pgp::crypto::hash::HashAlgorithm::Sha512,
        _ => pgp::crypto::hash::HashAlgorithm::Sha256,
    };
    let mut rng = SimRng::new(11, "c04sigmpi", false);
    let Ok(sig) = DetachedSignature::sign_binary_data(&mut rng, &*k.secret, &Password::from(k.password), hash, &content[..]) else {
        rec.count("skip:sign");
        return;
    };
    let Ok(body) = sig.signature.to_bytes() else { return };
    let Some(at) = sig_value_offset(&body) else {
        rec.count("skip:value-offset");
        return;
    };
    // the same signer inside a one-pass signed message
    let hash_name = match k.name {
        "p384-v6" => "sha384",
        "p521-v4" => "sha512",
        _ => "sha256",
    };
    let cfg = json!({"source":"bytes","compression":"none","signers":[{"key": k.name,"hash": hash_name}],"enc":{"k":"none"},"rng_key":1});
    let msg = workload::build_reference(&cfg, content, 1, false).0.ok().and_then(|m| deframe(&m).ok().map(|pk| (m, pk)));
    let single = k.name == "rsa-v4";
    let l1s: Vec<usize> = match plan.get("only") {
        Some(o) => vec![jusize(o, "l1")],
        None if single => vec![0],
        None => MPI_LENS.to_vec(),
    };
    rec.sample(json!({"key": k.name, "style": style, "first_mpi_octets": l0, "second_mpi_lengths": l1s.len()}));
    for l1 in l1s {
        let mut value = forged_mpi(l0, style, 1);
        if !single {
            value.extend_from_slice(&forged_mpi(l1, style, 2));
        }
        let mut h = Fnv::default();
        h.str(&plan.to_string());
        h.u64(l1 as u64);
        rec.eval(h.0, true);
        rec.count("fault:F-byz:signature-value-mpi-lengths");
        let mut vplan = plan.clone();
        vplan["only"] = json!({"l1": l1});
        let forged = [&body[..at], &value[..]].concat();
        let detached = Arc::new(frame(2, &forged, &LenForm::NewMinimal).unwrap());
        let in_msg = msg.as_ref().and_then(|(m, pk)| {
            let last = pk.last().filter(|p| p.tag == 2)?;
            let at2 = sig_value_offset(&last.body)?;
            let b2 = [&last.body[..at2], &value[..]].concat();
            Some(Arc::new([&m[..last.start], &frame(2, &b2, &LenForm::NewMinimal)?[..]].concat()))
        });
        let verifiers = vec![k.name];
        let r = guard(|| {
            // (process() verifies detached signatures over its own fixed content: here over the signed one)
            if let Ok(s) = DetachedSignature::from_bytes(&detached[..]) {
                let _ = s.verify(&k.public, &content[..]);
                let _ = s.signature.verify(&k.public.primary_key, &content[..]);
                let _ = s.to_bytes();
            }
            process("sig", &detached, false, &Opener::None, &Sched::Full, 8192, &[], &Consumer::ReadLoop(vec![64]), &verifiers);
            if let Some(m) = &in_msg {
                process("msg", m, false, &Opener::None, &Sched::Full, 8192, &[], &Consumer::ReadLoop(vec![64]), &verifiers);
            }
        });
        if let Err(pn) = r {
            rec.violation("panic", &norm_loc(&pn.loc), format!("signature by {} with its value re-made from MPIs of {l0} and {l1} octets ({style}): {}", k.name, pn.msg), vplan);
        }
    }
}

// ------------------------------------------------------------------ signatures of one algorithm presented to keys of another; key packets in the v2/v3 layout

const ALG_KEYS: [&str; 11] = ["ed25519-v4", "ed25519-v6", "edlegacy-v4", "ed448-v6", "p256-v4", "p384-v6", "p521-v4", "k256-v4", "rsa-v4", "dsa-v4", "ed25519-v4-locked"];

fn gen_cross_alg(_ctx: &GenCtx) -> Vec<Value> {
    let mut plans = Vec::new();
    for a in ALG_KEYS {
        for b in ALG_KEYS {
            if a != b {
                plans.push(json!({"what": "cross", "signer": a, "victim": b}));
            }
        }
    }
    for k in keys::pool() {
        for version in [2u8, 3] {
            plans.push(json!({"what": "legacy_layout", "key": k.name, "version": version}));
        }
    }
    plans
}

fn run_cross_alg(plan: &Value, rec: &mut Rec) {
    seams::set_poke_after_error(true);
    let mut h = Fnv::default();
    h.str(&plan.to_string());
    rec.eval(h.0, true);
    if jstr(plan, "what") == "legacy_layout" {
        // [version 4|6][created 4][alg][material]  ->  [version 2|3][created 4][validity 2][alg][material]
        let k = keys::get(jstr(plan, "key"));
        let version = jusize(plan, "version") as u8;
        let Ok(cert) = k.public.to_bytes() else { return };
        let Ok(pk) = deframe(&cert) else { return };
        let mut out = Vec::new();
        let mut changed = 0;
        for p in &pk {
            if matches!(p.tag, 6 | 14) && p.body.len() > 6 {
                let skip = if p.body[0] == 6 { 10 } else { 6 }; // v6 key packets carry a 4-octet material length
                let mut b = vec![version];
                b.extend_from_slice(&p.body[1..5]);
                b.extend_from_slice(&[0, 0]);
                b.push(p.body[5]);
                b.extend_from_slice(&p.body[skip.min(p.body.len())..]);
                out.extend_from_slice(&frame(p.tag, &b, &LenForm::NewMinimal).unwrap());
                changed += 1;
            } else {
                out.extend_from_slice(&cert[p.start..p.end]);
            }
        }
        if changed == 0 {
            return;
        }
        rec.count("fault:F-byz:key-packets-in-v2-v3-layout");
        rec.sample(json!({"what": "legacy_layout", "key": k.name, "version": version}));
        let bytes = Arc::new(out);
        let verifiers = vec![k.name];
        let r = guard(|| {
            process("pubkey", &bytes, false, &Opener::None, &Sched::Full, 8192, &[], &Consumer::ReadLoop(vec![64]), &verifiers);
            // the key packets one by one, and used as a verifying / encrypting key
            for p in PacketParser::new(&bytes[..]).take(50).flatten() {
                match p {
                    pgp::packet::Packet::PublicKey(key) => {
                        let _ = key.fingerprint();
                        let _ = key.legacy_key_id();
                        let _ = key.to_bytes();
                        if let Some(sig) = k.public.details.users.first().and_then(|u| u.signatures.first()) {
                            let _ = sig.verify_certification(&key, pgp::types::Tag::UserId, &k.public.details.users[0].id);
                            let _ = sig.verify_key(&key);
                        }
                    }
                    pgp::packet::Packet::PublicSubkey(key) => {
                        let _ = key.fingerprint();
                        let _ = key.legacy_key_id();
                        let _ = key.to_bytes();
                        let mut rng = SimRng::new(3, "legacy-layout", false);
                        let _ = key.encrypt(&mut rng, &[9u8; 17], EskType::V3_4);
                    }
                    _ => {}
                }
            }
        });
        if let Err(pn) = r {
            rec.violation("panic", &norm_loc(&pn.loc), format!("certificate of {} with its key packets in the version {version} layout: {}", k.name, pn.msg), plan.clone());
        }
        return;
    }
    let signer = keys::get(jstr(plan, "signer"));
    let victim = keys::get(jstr(plan, "victim"));
    let content = b"signed by one key, attributed to another";
    let hash = match signer.name {
        "p384-v6" => pgp::crypto::hash::HashAlgorithm::Sha384,
        "p521-v4" | "ed448-v6" => pgp::crypto::hash::HashAlgorithm::Sha512,
        _ => pgp::crypto::hash::HashAlgorithm::Sha256,
    };
    rec.count("fault:F-byz:signature-attributed-to-a-key-of-another-algorithm");
    rec.sample(json!({"what": "cross", "signer": signer.name, "victim": victim.name}));
    let r = guard(|| -> Result<(), String> {
        use pgp::packet::{Subpacket, SubpacketData};
        let mut rng = SimRng::new(17, "c04cross", false);
        // the issuer subpackets name the victim: fingerprint (hashed) and, for v4 victims, key id (unhashed)
        let mut unhashed = vec![];
        if !victim.v6 {
            unhashed.push(Subpacket::regular(SubpacketData::IssuerKeyId(victim.public.legacy_key_id())).map_err(|e| e.to_string())?);
        }
        let cfg = pgp::composed::SubpacketConfig::UserDefined {
            hashed: vec![
                Subpacket::regular(SubpacketData::SignatureCreationTime(pgp::types::Timestamp::now())).map_err(|e| e.to_string())?,
                Subpacket::regular(SubpacketData::IssuerFingerprint(victim.public.fingerprint())).map_err(|e| e.to_string())?,
            ],
            unhashed,
        };
        let sig = DetachedSignature::sign_binary_data_with_subpackets(&mut rng, &*signer.secret, &Password::from(signer.password), hash, &content[..], cfg).map_err(|e| e.to_string())?;
        // through the wire, then under the victim's key: Ok or Err
        let wire = sig.to_bytes().map_err(|e| e.to_string())?;
        let back = DetachedSignature::from_bytes(&wire[..]).map_err(|e| e.to_string())?;
        let _ = back.verify(&victim.public, &content[..]);
        let _ = back.signature.verify(&victim.public.primary_key, &content[..]);
        for sub in &victim.public.public_subkeys {
            let _ = back.signature.verify(&sub.key, &content[..]);
        }
        // and as the signature of a message: one-pass packet naming the victim
        let mut ops_body = vec![3u8, 0, u8::from(hash), u8::from(back.signature.config().map(|c| c.pub_alg).unwrap_or(victim.public.algorithm()))];
        ops_body.extend_from_slice(victim.public.legacy_key_id().as_ref());
        ops_body.push(1);
        let mut lit = vec![b'b', 0, 0, 0, 0, 0];
        lit.extend_from_slice(content);
        let mut msg = frame(4, &ops_body, &LenForm::NewMinimal).ok_or("frame")?;
        msg.extend_from_slice(&frame(11, &lit, &LenForm::NewMinimal).ok_or("frame")?);
        msg.extend_from_slice(&wire);
        let bytes = Arc::new(msg);
        let verifiers = vec![victim.name];
        process("msg", &bytes, false, &Opener::None, &Sched::Full, 8192, &[], &Consumer::ReadLoop(vec![64]), &verifiers);
        Ok(())
    });
    match r {
        Err(pn) => rec.violation("panic", &norm_loc(&pn.loc), format!("signature made by {} and attributed to {}: {}", signer.name, victim.name, pn.msg), plan.clone()),
        Ok(Err(e)) => rec.count(&format!("skip:cross:{}", &e[..e.len().min(40)])),
        Ok(Ok(())) => {}
    }
}

// ------------------------------------------------------------------ deep nesting, judged on a small stack in a child process

/// everything a recipient might do with these bytes (runs in the child process, see main.rs `stack-probe`)
pub fn probe_entry_points(bytes: Vec<u8>) {
    let bytes = Arc::new(bytes);
    let consumer = Consumer::ReadLoop(vec![4096]);
    let verifiers = vec!["ed25519-v4"];
    for kind in ["sig", "msg", "pubkey"] {
        let _ = guard(|| process(kind, &bytes, false, &Opener::None, &Sched::Full, 8192, &[], &consumer, &verifiers));
    }
}

fn gen_deep(ctx: &GenCtx) -> Vec<Value> {
    let mut v = Vec::new();
    let big = ctx.tier == Tier::Thorough;
    for depth in [10usize, 200, 3000] {
        v.push(json!({"kind": "embedded_sig_v4", "depth": depth, "stack_kib": 2048}));
    }
    for depth in [200usize, 3000, if big { 20000 } else { 6000 }] {
        v.push(json!({"kind": "embedded_sig_v6", "depth": depth, "stack_kib": 2048}));
    }
    for depth in [200usize, 3000] {
        v.push(json!({"kind": "embedded_sig_mixed", "depth": depth, "stack_kib": 2048}));
    }
    for depth in [200usize, 2000, if big { 20000 } else { 5000 }] {
        v.push(json!({"kind": "compressed", "depth": depth, "stack_kib": 2048}));
    }
    v
}

fn subpacket_len(n: usize) -> Vec<u8> {
    if n < 192 {
        vec![n as u8]
    } else if n < 8384 {
        vec![((n - 192) >> 8) as u8 + 192, ((n - 192) & 0xff) as u8]
    } else {
        let mut v = vec![255u8];
        v.extend_from_slice(&(n as u32).to_be_bytes());
        v
    }
}

pub fn deep_artifact(kind: &str, depth: usize) -> Vec<u8> {
    match kind {
        "embedded_sig_v4" | "embedded_sig_v6" | "embedded_sig_mixed" => {
            let mixed = kind.ends_with("mixed");
            let all_v6 = kind.ends_with("v6");
            let tail: &[u8] = &[0xAA, 0xBB, 0, 1, 1, 0, 1, 1]; // left 16 bits, two one-bit MPIs (EdDSA legacy)
            let level = std::cell::Cell::new(0usize);
            let mk = |unhashed: &[u8]| -> Vec<u8> {
                let v6 = all_v6 || (mixed && level.get() % 2 == 1);
                level.set(level.get() + 1);
                let mut b = vec![if v6 { 6 } else { 4 }, 0x19, 22, 8];
                if v6 {
                    b.extend_from_slice(&0u32.to_be_bytes());
                    b.extend_from_slice(&(unhashed.len() as u32).to_be_bytes());
                } else {
                    b.extend_from_slice(&0u16.to_be_bytes());
                    b.extend_from_slice(&(unhashed.len() as u16).to_be_bytes());
                }
                b.extend_from_slice(unhashed);
                b.extend_from_slice(&tail[..2]);
                if v6 {
                    b.push(0); // salt length (wrong for the hash: the parser looks at it after the subpackets)
                }
                b.extend_from_slice(&tail[2..]);
                b
            };
            let mut body = mk(&[]);
            for _ in 0..depth {
                let mut sub = subpacket_len(body.len() + 1);
                sub.push(32); // embedded signature
                sub.extend_from_slice(&body);
                if !all_v6 && sub.len() > 65535 {
                    break;
                }
                body = mk(&sub);
            }
            frame(2, &body, &LenForm::New5).unwrap_or_default()
        }
        _ => {
            // compressed data packet, algorithm 0 (uncompressed), containing a compressed data packet, ...
            let mut inner = frame(11, &[b'b', 0, 0, 0, 0, 0, b'x'], &LenForm::NewMinimal).unwrap_or_default();
            for _ in 0..depth {
                let mut b = vec![0u8];
                b.extend_from_slice(&inner);
                inner = frame(8, &b, &LenForm::New5).unwrap_or_default();
            }
            inner
        }
    }
}

fn run_deep(plan: &Value, rec: &mut Rec) {
    use std::io::Write;
    use std::process::{Command, Stdio};
    let kind = jstr(plan, "kind");
    let depth = jusize(plan, "depth");
    let kib = jusize(plan, "stack_kib").max(256);
    let artifact = deep_artifact(kind, depth);
    let mut h = Fnv::default();
    h.str(&plan.to_string());
    rec.eval(h.0, true);
    rec.count(&format!("fault:F-byz:deep-nesting:{kind}"));
    rec.sample(json!({"kind": kind, "depth": depth, "artifact_bytes": artifact.len(), "stack_kib": kib}));
    let Ok(exe) = std::env::current_exe() else {
        rec.count("skip:no-current-exe");
        return;
    };
    let child = Command::new(exe).arg("stack-probe").arg(kib.to_string()).stdin(Stdio::piped()).stdout(Stdio::null()).stderr(Stdio::null()).spawn();
    let Ok(mut child) = child else {
        rec.count("skip:cannot-spawn-probe");
        return;
    };
    if let Some(mut stdin) = child.stdin.take() {
        let _ = stdin.write_all(&artifact);
    }
    let t0 = std::time::Instant::now();
    let status = loop {
        match child.try_wait() {
            Ok(Some(s)) => break Some(s),
            Ok(None) if t0.elapsed().as_secs() > 100 => {
                let _ = child.kill();
                let _ = child.wait();
                break None;
            }
            Ok(None) => std::thread::sleep(std::time::Duration::from_millis(20)),
            Err(_) => break None,
        }
    };
    match status {
        None => rec.violation("hang", &format!("deep:{kind}"), format!("{depth} levels of {kind} ({} octets): still being processed after 100 s", artifact.len()), plan.clone()),
        Some(s) if s.success() => {}
        Some(s) => {
            use std::os::unix::process::ExitStatusExt;
            match s.signal() {
                Some(sig) => rec.violation(
                    "stack-overflow",
                    &format!("deep:{kind}"),
                    format!("{depth} levels of {kind} ({} octets) processed on a thread with a {kib} KiB stack: the process was killed by signal {sig} (stack overflow aborts, it cannot be caught)", artifact.len()),
                    plan.clone(),
                ),
                None => rec.violation("panic", &format!("deep:{kind}"), format!("{depth} levels of {kind}: the probe process exited with {:?}", s.code()), plan.clone()),
            }
        }
    }
}

// ------------------------------------------------------------------ one-octet parameter sweeps

fn gen_octets(ctx: &GenCtx) -> Vec<Value> {
    let mut plans = Vec::new();
    let mut p = Planner::new(ctx.seed, "c04.octets", 0);
    // password messages: SKESK v4 / v6 header octets
    for v2 in [false, true] {
        for s2k in [json!({"k":"iterated","hash":"sha256","count":3}), json!({"k":"salted","hash":"sha256"}), json!({"k":"argon2","t":1,"p":1,"m":4})] {
            if !v2 && jstr(&s2k, "k") == "argon2" {
                continue;
            }
            for off in 0..16 {
                plans.push(json!({"what":"skesk","v2": v2, "s2k": s2k, "off": off, "rng_key": p.u64()}));
            }
        }
    }
    // GnuPG / LibrePGP containers (accepted when the recipient enabled them): v5 SKESK and OCB packet
    for pkt in 0..2 {
        for off in 0..24 {
            plans.push(json!({"what":"gnupg_aead","pkt": pkt, "off": off}));
        }
    }
    // secret keys: octets after the public part
    for key in ["ed25519-v4-locked", "ed25519-v6-locked", "ed25519-v4", "ed25519-v6", "rsa-v4", "p256-v4"] {
        for off in 0..26 {
            plans.push(json!({"what":"seckey","key": key, "off": off}));
        }
    }
    // secret key packets cut short (with the packet length repaired) at every length behind the public part
    for key in ["ed25519-v4-locked", "ed25519-v6-locked", "ed25519-v4", "rsa-v4", "sublocked-v4", "primlocked-v6"] {
        for pkt in [0usize, 1] {
            plans.push(json!({"what":"seckey_cut","key": key, "pkt": pkt, "off": 0}));
        }
    }
    // leading octets of every packet of a signed+compressed message, a certificate, a signature
    // a message with two one-pass signers: the slots of the two signatures have to stay aligned whatever
    // one of the packets says
    for pkt in 0..5 {
        for off in 0..8 {
            plans.push(json!({"what": "msg2_packets", "pkt": pkt, "off": off, "key": *p.pick(&["ed25519-v4","ed25519-v6","p256-v4"]), "same": false}));
            // (the same signer twice: every signature packet then fits every one-pass packet)
            for key in ["ed25519-v4", "ed25519-v6", "p256-v4"] {
                plans.push(json!({"what": "msg2_packets", "pkt": pkt, "off": off, "key": key, "same": true}));
            }
        }
    }
    for what in ["msg_packets", "cert_packets", "sig_packet"] {
        for pkt in 0..6 {
            for off in 0..8 {
                plans.push(json!({"what": what, "pkt": pkt, "off": off, "key": *p.pick(&["ed25519-v4","ed25519-v6","p256-v4"])}));
            }
        }
    }
    plans
}

fn run_octets(plan: &Value, rec: &mut Rec) {
    // consumers of this check call a reader again after it returned an error
    seams::set_poke_after_error(true);
    let what = jstr(plan, "what");
    if what == "seckey_cut" {
        let k = keys::get(jstr(plan, "key"));
        let Ok(stream) = k.secret.to_bytes() else { return };
        let Ok(pk) = deframe(&stream) else { return };
        // the secret key packets: primary (tag 5) and first subkey (tag 7)
        let idx: Vec<usize> = pk.iter().enumerate().filter(|(_, p)| p.tag == 5 || p.tag == 7).map(|(i, _)| i).collect();
        let Some(&pi) = idx.get(jusize(plan, "pkt")) else { return };
        let p = &pk[pi];
        let public_len = if p.tag == 5 { k.secret.primary_key.public_key().to_bytes().map(|b| b.len()).unwrap_or(0) } else { k.secret.secret_subkeys[0].key.public_key().to_bytes().map(|b| b.len()).unwrap_or(0) };
        let cuts: Vec<usize> = match plan.get("only") {
            Some(o) => vec![jusize(o, "len")],
            None => (public_len..p.body.len()).collect(),
        };
        rec.sample(json!({"what": what, "key": k.name, "tag": p.tag, "cuts": cuts.len()}));
        for len in cuts {
            let mut out = Vec::new();
            for (i, q) in pk.iter().enumerate() {
                if i == pi {
                    out.extend_from_slice(&frame(q.tag, &q.body[..len.min(q.body.len())], &LenForm::NewMinimal).unwrap());
                } else {
                    out.extend_from_slice(&stream[q.start..q.end]);
                }
            }
            let mut h = Fnv::default();
            h.str(&plan.to_string());
            h.u64(len as u64);
            rec.eval(h.0, true);
            rec.count("fault:F-byz:secret-key-packet-cut-short");
            let mut vplan = plan.clone();
            vplan["only"] = json!({"len": len});
            let bytes = Arc::new(out);
            let r = guard(|| {
                process("seckey", &bytes, false, &Opener::None, &Sched::Full, 8192, &[], &Consumer::ReadLoop(vec![300]), &[]);
                // the packet on its own as well (certificate parsing may drop a damaged component)
                for item in PacketParser::new(&bytes[..]).take(40).flatten() {
                    match item {
                        pgp::packet::Packet::SecretKey(sk) => {
                            let _ = sk.unlock(&Password::from(keys::KEY_PW), |_, _| Ok(()));
                            let _ = sk.to_bytes();
                        }
                        pgp::packet::Packet::SecretSubkey(sk) => {
                            let _ = sk.unlock(&Password::from(keys::KEY_PW), |_, _| Ok(()));
                            let _ = sk.to_bytes();
                        }
                        _ => {}
                    }
                }
            });
            if let Err(pn) = r {
                rec.violation("panic", &norm_loc(&pn.loc), format!("secret key packet (tag {}) of {} cut to {len} of {} octets: {}", p.tag, k.name, p.body.len(), pn.msg), vplan);
            }
        }
        return;
    }
    let off = jusize(plan, "off");
    let vals: Vec<usize> = match plan.get("only") {
        Some(o) => vec![jusize(o, "val")],
        None => (0..256).collect(),
    };
    let consumer = Consumer::ReadLoop(vec![300]);
    // base stream, location of the packet to edit, and how to process
    let (stream, pkt_index, opener, kind): (Vec<u8>, usize, Opener, &str) = match what {
        "skesk" => {
            let v2 = jbool(plan, "v2");
            let cfg = json!({"source":"bytes","enc": if v2 { json!({"k":"v2","sym":"aes128","aead":"gcm","chunk":0}) } else { json!({"k":"v1","sym":"aes256"}) },
                             "passwords":[{"pw":"pw","s2k": plan["s2k"]}], "rng_key": ju64(plan, "rng_key")});
            let (b, _) = workload::build_reference(&cfg, b"octet sweep", ju64(plan, "rng_key"), false);
            let Ok(b) = b else { return };
            (b, 0, Opener::Password("pw".into()), "msg")
        }
        "seckey" => {
            let k = keys::get(jstr(plan, "key"));
            (k.secret.to_bytes().unwrap_or_default(), 0, Opener::None, "seckey")
        }
        "msg_packets" => {
            let cfg = json!({"source":"bytes","compression":"zip","signers":[{"key": jstr(plan,"key"),"hash":"sha256"}],"enc":{"k":"none"},"rng_key":1});
            let inner_cfg = json!({"source":"bytes","compression":"none","signers":[{"key": jstr(plan,"key"),"hash":"sha256"}],"enc":{"k":"none"},"rng_key":1});
            let (inner, _) = workload::build_reference(&inner_cfg, b"octet sweep payload", 1, false);
            let _ = cfg;
            let Ok(inner) = inner else { return };
            (inner, jusize(plan, "pkt"), Opener::None, "msg")
        }
        "msg2_packets" => {
            let second = if jbool(plan, "same") { jstr(plan, "key") } else if jstr(plan, "key") == "p256-v4" { "ed25519-v4" } else { "p256-v4" };
            let cfg = json!({"source":"bytes","compression":"none","signers":[{"key": jstr(plan,"key"),"hash":"sha256"},{"key": second,"hash": if jbool(plan, "same") { "sha256" } else { "sha512" }}],"enc":{"k":"none"},"rng_key":1});
            let (m, _) = workload::build_reference(&cfg, b"octet sweep payload, two signers", 1, false);
            let Ok(m) = m else { return };
            (m, jusize(plan, "pkt"), Opener::None, "msg")
        }
        "gnupg_aead" => {
            // LibrePGP draft test vector: SKESK v5 (AES128/OCB, iterated S2K) + OCB encrypted data, password "password"
            let v = hex::decode(concat!(
                "c33d05070203089f0b7da3e5ea64779099e326e5400a90936cefb4e8eba08c6773716d1f2714540a38fcac529949dac529d3de31e15b4aeb729e330033dbed",
                "d44901070 20e5ed2bc1e470abe8f1d644c7a6c8a567b0f7701196611a154ba9c2574cd056284a8ef68035c623d93cc708a43211bb6eaf2b27f7c18d571bcd83b20add3a08b73af15b9a098"
            ).replace(' ', "")).unwrap_or_default();
            (v, jusize(plan, "pkt"), Opener::Password("password".into()), "msg")
        }
        "cert_packets" => (keys::get(jstr(plan, "key")).public.to_bytes().unwrap_or_default(), jusize(plan, "pkt"), Opener::None, "pubkey"),
        _ => {
            let k = keys::get(jstr(plan, "key"));
            let mut rng = SimRng::new(5, "c04sig", false);
            let b = DetachedSignature::sign_binary_data(&mut rng, &*k.secret, &Password::from(k.password), pgp::crypto::hash::HashAlgorithm::Sha512, &b"signed content"[..]).ok().and_then(|s| s.to_bytes().ok()).unwrap_or_default();
            (b, 0, Opener::None, "sig")
        }
    };
    let Ok(pk) = deframe(&stream) else { return };
    let Some(p) = pk.get(pkt_index) else {
        rec.count("skip:no-such-packet");
        return;
    };
    let base_off = if what == "seckey" {
        let k = keys::get(jstr(plan, "key"));
        k.secret.primary_key.public_key().to_bytes().map(|b| b.len()).unwrap_or(0)
    } else {
        0
    };
    if base_off + off >= p.body.len() {
        rec.count("skip:offset-beyond-body");
        return;
    }
    let mut verifiers: Vec<&'static str> = vec![keys::get(if jstr(plan, "key").is_empty() { "ed25519-v4" } else { jstr(plan, "key") }).name];
    if what == "msg2_packets" && !jbool(plan, "same") {
        verifiers.push(if jstr(plan, "key") == "p256-v4" { "ed25519-v4" } else { "p256-v4" });
    }
    rec.sample(json!({"what": what, "packet": pkt_index, "tag": p.tag, "offset": base_off + off, "values": vals.len()}));
    for val in vals {
        let mut body = p.body.clone();
        if body[base_off + off] == val as u8 {
            continue;
        }
        // cost guard: an accepted-but-huge Argon2 memory octet is skipped (see assumptions)
        let orig = body[base_off + off];
        body[base_off + off] = val as u8;
        if looks_like_expensive_argon2(&body) && !looks_like_expensive_argon2(&p.body) {
            rec.count("skip:expensive-argon2-octet");
            let _ = orig;
            continue;
        }
        let mut out = Vec::new();
        for (i, q) in pk.iter().enumerate() {
            if i == pkt_index {
                out.extend_from_slice(&frame(q.tag, &body, &LenForm::NewMinimal).unwrap());
            } else {
                out.extend_from_slice(&stream[q.start..q.end]);
            }
        }
        let mut h = Fnv::default();
        h.str(&plan.to_string());
        h.u64(val as u64);
        rec.eval(h.0, true);
        rec.count(&format!("fault:F-byz:octet:{what}"));
        let mut vplan = plan.clone();
        vplan["only"] = json!({"val": val});
        let bytes = Arc::new(out);
        let r = guard(|| process(kind, &bytes, false, &opener, &Sched::Full, 8192, &[], &consumer, &verifiers));
        match r {
            Err(pn) if pn.msg.contains(LIVELOCK_MARK) => rec.violation("livelock", &format!("octet:{what}"), format!("offset {} value {val}", base_off + off), vplan),
            Err(pn) => rec.violation("panic", &norm_loc(&pn.loc), format!("{what}: packet #{pkt_index} (tag {}) body offset {} set to {val}: {}", p.tag, base_off + off, pn.msg), vplan),
            Ok((_, budget)) => {
                if budget {
                    rec.violation("livelock", &format!("octet:{what}"), format!("step budget exceeded at offset {} value {val}", base_off + off), vplan);
                }
            }
        }
    }
}

/// heuristic used only to skip cost: an S2K specifier of type 4 (Argon2) whose memory exponent is 17..=21
fn looks_like_expensive_argon2(body: &[u8]) -> bool {
    // look for [4][16-byte salt][t][p][m] with plausible t,p and large m anywhere in the first 80 bytes
    for i in 0..body.len().min(90) {
        if body[i] == 4 && i + 19 < body.len() {
            let (t, p, m) = (body[i + 17], body[i + 18], body[i + 19]);
            if t >= 1 && p >= 1 && (17..=31).contains(&m) {
                return true;
            }
        }
    }
    false
}
