//! Independent OpenPGP packet framer / deframer (RFC 9580 §4.2).

#[derive(Debug, Clone, PartialEq)]
pub struct Pkt {
    pub tag: u8,
    pub old_format: bool,
    /// offset of the first header octet in the stream
    pub start: usize,
    /// offset of the first body octet (after the first length)
    pub body_start: usize,
    /// offset one past the last octet of this packet
    pub end: usize,
    /// (declared length, is_partial, offset of the chunk's data in the stream)
    pub chunks: Vec<(usize, bool, usize)>,
    pub indeterminate: bool,
    pub body: Vec<u8>,
}

pub fn is_data_tag(tag: u8) -> bool {
    matches!(tag, 8 | 9 | 11 | 18 | 20)
}

/// Strict deframer.  Err(reason) on any framing rule broken.
pub fn deframe(s: &[u8]) -> Result<Vec<Pkt>, String> {
    let mut out = Vec::new();
    let mut i = 0usize;
    while i < s.len() {
        let start = i;
        let h = s[i];
        i += 1;
        if h & 0x80 == 0 {
            return Err(format!("offset {start}: header octet without bit 7"));
        }
        if h & 0x40 != 0 {
            let tag = h & 0x3f;
            let mut chunks = Vec::new();
            let mut body = Vec::new();
            let mut first = true;
            let body_start;
            let mut bs = None;
            loop {
                let Some(&o1) = s.get(i) else { return Err(format!("offset {i}: missing length octet")) };
                let (len, partial, hl) = if o1 < 192 {
                    (o1 as usize, false, 1)
                } else if o1 < 224 {
                    let Some(&o2) = s.get(i + 1) else { return Err("short 2-octet length".into()) };
                    ((((o1 as usize) - 192) << 8) + o2 as usize + 192, false, 2)
                } else if o1 == 255 {
                    if i + 5 > s.len() {
                        return Err("short 5-octet length".into());
                    }
                    (u32::from_be_bytes([s[i + 1], s[i + 2], s[i + 3], s[i + 4]]) as usize, false, 5)
                } else {
                    (1usize << (o1 & 0x1f), true, 1)
                };
                i += hl;
                if bs.is_none() {
                    bs = Some(i);
                }
                if partial {
                    if !is_data_tag(tag) {
                        return Err(format!("partial length on non-data tag {tag}"));
                    }
                    if first && len < 512 {
                        return Err(format!("first partial chunk of {len} < 512"));
                    }
                }
                if i + len > s.len() {
                    return Err(format!("tag {tag}: declared {len} octets at {i}, only {} follow", s.len() - i));
                }
                chunks.push((len, partial, i));
                body.extend_from_slice(&s[i..i + len]);
                i += len;
                first = false;
                if !partial {
                    break;
                }
            }
            body_start = bs.unwrap();
            out.push(Pkt { tag, old_format: false, start, body_start, end: i, chunks, indeterminate: false, body });
        } else {
            let tag = (h >> 2) & 0x0f;
            let lt = h & 3;
            let (len, indet) = match lt {
                0 => {
                    let Some(&o) = s.get(i) else { return Err("short old length".into()) };
                    i += 1;
                    (o as usize, false)
                }
                1 => {
                    if i + 2 > s.len() {
                        return Err("short old length".into());
                    }
                    let l = u16::from_be_bytes([s[i], s[i + 1]]) as usize;
                    i += 2;
                    (l, false)
                }
                2 => {
                    if i + 4 > s.len() {
                        return Err("short old length".into());
                    }
                    let l = u32::from_be_bytes([s[i], s[i + 1], s[i + 2], s[i + 3]]) as usize;
                    i += 4;
                    (l, false)
                }
                _ => (s.len() - i, true),
            };
            if i + len > s.len() {
                return Err(format!("old tag {tag}: declared {len}, only {} follow", s.len() - i));
            }
            let body = s[i..i + len].to_vec();
            out.push(Pkt { tag, old_format: true, start, body_start: i, end: i + len, chunks: vec![(len, false, i)], indeterminate: indet, body });
            i += len;
        }
    }
    Ok(out)
}

/// What rpgp's *writers* must additionally obey: new format, minimal is not required,
/// every partial a power of two (by construction of the encoding), final part fixed.
pub fn check_written(s: &[u8]) -> Result<Vec<Pkt>, String> {
    let pkts = deframe(s)?;
    for p in &pkts {
        if p.old_format {
            // keys may legitimately be written in old format when asked to; not an error
            continue;
        }
    }
    Ok(pkts)
}

// ------------------------------------------------------------------ framer (encoder)

#[derive(Debug, Clone)]
pub enum LenForm {
    /// new format, shortest encoding
    NewMinimal,
    /// new format, 2-octet form (only valid for 192..=8383)
    New2,
    /// new format, 5-octet form
    New5,
    /// old format with 1/2/4-octet length (tags < 16 only)
    Old1,
    Old2,
    Old4,
    /// old format, indeterminate length (must be the last packet)
    OldIndeterminate,
    /// new format partial body: explicit powers (exponent) for each partial chunk, then the
    /// remainder as a fixed final part encoded with the given form
    Partial(Vec<u8>, Box<LenForm>),
}

pub fn new_len(len: usize, out: &mut Vec<u8>) {
    if len < 192 {
        out.push(len as u8);
    } else if len < 8384 {
        let l = len - 192;
        out.push((l >> 8) as u8 + 192);
        out.push(l as u8);
    } else {
        out.push(255);
        out.extend_from_slice(&(len as u32).to_be_bytes());
    }
}

/// Encode one packet.  Returns None when the form cannot carry this body/tag.
pub fn frame(tag: u8, body: &[u8], form: &LenForm) -> Option<Vec<u8>> {
    let mut out = Vec::with_capacity(body.len() + 8);
    let fixed = |form: &LenForm, len: usize, out: &mut Vec<u8>| -> Option<()> {
        match form {
            LenForm::NewMinimal => new_len(len, out),
            LenForm::New2 => {
                if !(192..8384).contains(&len) {
                    return None;
                }
                let l = len - 192;
                out.push((l >> 8) as u8 + 192);
                out.push(l as u8);
            }
            LenForm::New5 => {
                out.push(255);
                out.extend_from_slice(&(len as u32).to_be_bytes());
            }
            _ => return None,
        }
        Some(())
    };
    match form {
        LenForm::NewMinimal | LenForm::New2 | LenForm::New5 => {
            out.push(0xC0 | (tag & 0x3f));
            fixed(form, body.len(), &mut out)?;
            out.extend_from_slice(body);
        }
        LenForm::Old1 | LenForm::Old2 | LenForm::Old4 | LenForm::OldIndeterminate => {
            if tag >= 16 {
                return None;
            }
            match form {
                LenForm::Old1 => {
                    if body.len() > 255 {
                        return None;
                    }
                    out.push(0x80 | (tag << 2));
                    out.push(body.len() as u8);
                }
                LenForm::Old2 => {
                    if body.len() > 65535 {
                        return None;
                    }
                    out.push(0x80 | (tag << 2) | 1);
                    out.extend_from_slice(&(body.len() as u16).to_be_bytes());
                }
                LenForm::Old4 => {
                    out.push(0x80 | (tag << 2) | 2);
                    out.extend_from_slice(&(body.len() as u32).to_be_bytes());
                }
                _ => out.push(0x80 | (tag << 2) | 3),
            }
            out.extend_from_slice(body);
        }
        LenForm::Partial(exps, last) => {
            out.push(0xC0 | (tag & 0x3f));
            let mut pos = 0usize;
            for e in exps {
                let l = 1usize << e;
                if pos + l > body.len() {
                    return None;
                }
                out.push(224 + e);
                out.extend_from_slice(&body[pos..pos + l]);
                pos += l;
            }
            fixed(last, body.len() - pos, &mut out)?;
            out.extend_from_slice(&body[pos..]);
        }
    }
    Some(out)
}

#[cfg(test)]
mod tests {
    use super::*;
    #[test]
    fn roundtrip() {
        let body: Vec<u8> = (0..3000u32).map(|i| i as u8).collect();
        for form in [
            LenForm::NewMinimal,
            LenForm::New2,
            LenForm::New5,
            LenForm::Old2,
            LenForm::Old4,
            LenForm::OldIndeterminate,
            LenForm::Partial(vec![9, 10, 0, 0], Box::new(LenForm::NewMinimal)),
        ] {
            let f = frame(11, &body, &form).unwrap();
            let p = deframe(&f).unwrap();
            assert_eq!(p.len(), 1);
            assert_eq!(p[0].body, body);
            assert_eq!(p[0].tag, 11);
        }
        assert!(deframe(&frame(11, &body, &LenForm::Partial(vec![8], Box::new(LenForm::NewMinimal))).unwrap()).is_err());
        assert!(deframe(&frame(2, &body, &LenForm::Partial(vec![9], Box::new(LenForm::NewMinimal))).unwrap()).is_err());
    }
}
