//! Independent ASCII-armor checker: CRC-24, canonical base64, line lengths.

use base64::Engine;

pub fn crc24(data: &[u8]) -> u32 {
    let mut crc: u32 = 0xB704CE;
    for &b in data {
        crc ^= (b as u32) << 16;
        for _ in 0..8 {
            crc <<= 1;
            if crc & 0x1000000 != 0 {
                crc ^= 0x1864CFB;
            }
        }
    }
    crc & 0xFFFFFF
}

#[derive(Debug, Clone, PartialEq)]
pub struct Armored {
    pub block: String,
    pub headers: Vec<(String, String)>,
    pub data: Vec<u8>,
    pub crc: Option<u32>,
    pub max_line: usize,
}

/// Strict parse of armor text as rpgp is supposed to *emit* it.
pub fn parse_strict(text: &str) -> Result<Armored, String> {
    let mut lines = text.split('\n').peekable();
    let first = lines.next().ok_or("empty")?;
    let block = first
        .strip_prefix("-----BEGIN ")
        .and_then(|r| r.strip_suffix("-----"))
        .ok_or_else(|| format!("bad header line {first:?}"))?
        .to_string();
    let mut headers = Vec::new();
    loop {
        let l = lines.next().ok_or("eof in headers")?;
        if l.is_empty() {
            break;
        }
        let (k, v) = l.split_once(": ").ok_or_else(|| format!("bad header {l:?}"))?;
        headers.push((k.to_string(), v.to_string()));
    }
    let mut b64 = String::new();
    let mut crc = None;
    let mut max_line = 0;
    let footer = format!("-----END {block}-----");
    let mut saw_footer = false;
    let mut short_line_seen = false;
    for l in lines.by_ref() {
        if l == footer {
            saw_footer = true;
            break;
        }
        if let Some(c) = l.strip_prefix('=') {
            if crc.is_some() {
                return Err("two crc lines".into());
            }
            if c.len() != 4 {
                return Err(format!("crc line of length {}", c.len()));
            }
            let d = base64::engine::general_purpose::STANDARD.decode(c).map_err(|e| format!("crc b64: {e}"))?;
            crc = Some(((d[0] as u32) << 16) | ((d[1] as u32) << 8) | d[2] as u32);
            continue;
        }
        if crc.is_some() {
            return Err("data after crc".into());
        }
        if short_line_seen {
            return Err("a short line was followed by more data".into());
        }
        if l.len() > 64 {
            return Err(format!("body line of {} chars", l.len()));
        }
        if l.is_empty() {
            return Err("empty line in body".into());
        }
        if l.len() < 64 {
            short_line_seen = true;
        }
        max_line = max_line.max(l.len());
        b64.push_str(l);
    }
    if !saw_footer {
        return Err("no footer".into());
    }
    let rest: Vec<&str> = lines.collect();
    if !(rest.is_empty() || rest == [""]) {
        return Err(format!("trailing text after footer: {rest:?}"));
    }
    // canonical base64: decode strictly (padding required, no trailing bits)
    let data = base64::engine::general_purpose::STANDARD.decode(&b64).map_err(|e| format!("body b64: {e}"))?;
    if base64::engine::general_purpose::STANDARD.encode(&data) != b64 {
        return Err("non-canonical base64".into());
    }
    Ok(Armored { block, headers, data, crc, max_line })
}

#[cfg(test)]
mod tests {
    use super::*;
    #[test]
    fn crc_vector() {
        // CRC-24 of empty input is the init value; "123456789" -> 0x21CF02 (OpenPGP CRC-24)
        assert_eq!(crc24(b""), 0xB704CE);
        assert_eq!(crc24(b"123456789"), 0x21CF02);
    }
}
