//! Reference models (oracles).  Small, independent of rpgp code.

pub mod armor;
pub mod framer;

/// RFC 9580 text canonicalization as the property states it:
/// every LF not preceded by CR becomes CRLF, everything else unchanged.
pub fn canon(s: &[u8]) -> Vec<u8> {
    let mut out = Vec::with_capacity(s.len() + 8);
    let mut prev_cr = false;
    for &b in s {
        if b == b'\n' && !prev_cr {
            out.push(b'\r');
        }
        out.push(b);
        prev_cr = b == b'\r';
    }
    out
}

/// predicate for DataMode::Utf8 builder input
pub fn utf8_crlf_ok(s: &[u8]) -> bool {
    if std::str::from_utf8(s).is_err() {
        return false;
    }
    let mut prev_cr = false;
    for &b in s {
        if b == b'\n' && !prev_cr {
            return false;
        }
        prev_cr = b == b'\r';
    }
    true
}

#[cfg(test)]
mod tests {
    use super::*;
    #[test]
    fn canon_basics() {
        assert_eq!(canon(b"a\nb"), b"a\r\nb");
        assert_eq!(canon(b"a\r\nb"), b"a\r\nb");
        assert_eq!(canon(b"a\rb\r"), b"a\rb\r");
        assert_eq!(canon(b"\n\n"), b"\r\n\r\n");
        assert_eq!(canon(b"\r\r\n"), b"\r\r\n");
    }
}
