//! Reference models (oracles).  Small, independent of rpgp code.

pub mod armor;
pub mod framer;

/// RFC 9580 text canonicalization as the property states it:
/// every LF not preceded by CR becomes CRLF, everything else unchanged.
pub fn canon(s: &[u8]) -> Vec<u8> {
    let mut out = Vec::with_capacity(s.len() + 8);
    let mut prev_cr = false;
    for &b in s {
        if b == b'\n' && !prev_cr {
            out.push(b'\r');
        }
        out.push(b);
        prev_cr = b == b'\r';
    }
    out
}

/// predicate for DataMode::Utf8 builder input
pub fn utf8_crlf_ok(s: &[u8]) -> bool {
    if std::str::from_utf8(s).is_err() {
        return false;
    }
    let mut prev_cr = false;
    for &b in s {
        if b == b'\n' && !prev_cr {
            return false;
        }
        prev_cr = b == b'\r';
    }
    true
}

#[cfg(test)]
mod tests {
    use super::*;
    #[test]
    fn canon_basics() {
        assert_eq!(canon(b"a\nb"), b"a\r\nb");
        assert_eq!(canon(b"a\r\nb"), b"a\r\nb");
        assert_eq!(canon(b"a\rb\r"), b"a\rb\r");
        assert_eq!(canon(b"\n\n"), b"\r\n\r\n");
        assert_eq!(canon(b"\r\r\n"), b"\r\r\n");
    }
}


/// RFC 9580 section 3.7.1 string-to-key functions, written against the digest crates only (reference
/// model for keys and session keys "made by another implementation").
/// `kind`: 0 simple, 1 salted, 3 iterated and salted (`coded` = the coded count octet).
/// `hash`: 2 = SHA-1, 8 = SHA-256, 10 = SHA-512.  Keys longer than the digest use further contexts,
/// the i-th preloaded with i zero octets.
pub fn reference_s2k(kind: u8, hash: u8, salt: &[u8; 8], coded: u8, pw: &[u8], n: usize) -> Vec<u8> {
    use sha2::Digest;
    let unit: Vec<u8> = if kind == 0 { pw.to_vec() } else { [&salt[..], pw].concat() };
    let total = if kind == 3 {
        let count = (16usize + (coded as usize & 15)) << ((coded as usize >> 4) + 6);
        count.max(unit.len())
    } else {
        unit.len()
    };
    let mut out = Vec::new();
    let mut ctx = 0usize;
    while out.len() < n {
        let mut data = vec![0u8; ctx];
        let mut fed = 0;
        while !unit.is_empty() && fed + unit.len() <= total {
            data.extend_from_slice(&unit);
            fed += unit.len();
        }
        data.extend_from_slice(&unit[..(total - fed).min(unit.len())]);
        let d: Vec<u8> = match hash {
            2 => sha1::Sha1::digest(&data).to_vec(),
            10 => sha2::Sha512::digest(&data).to_vec(),
            _ => sha2::Sha256::digest(&data).to_vec(),
        };
        out.extend_from_slice(&d);
        ctx += 1;
    }
    out.truncate(n);
    out
}
