//! The message pipeline: producer (real `MessageBuilder`) and consumer (real `Message` reader),
//! both driven from an explicit JSON configuration and the simulator's seams.

use std::io::{BufRead, Read, Write};
use std::sync::Arc;

use pgp::{
    composed::{ArmorOptions, Message, MessageBuilder, PlainSessionKey, RawSessionKey},
    crypto::{
        aead::{AeadAlgorithm, ChunkSize},
        hash::HashAlgorithm,
        sym::SymmetricKeyAlgorithm,
    },
    packet::DataMode,
    types::{CompressionAlgorithm, Password, StringToKey},
};
use serde_json::{json, Value};

use crate::{
    keys,
    rng::SimRng,
    seams::{self, Consumer, Fault, Sched, SharedLog, SimReader},
    util::{jbool, jstr, ju64, jusize, Planner},
};

pub const SYMS: [&str; 11] = [
    "aes128", "aes192", "aes256", "twofish", "camellia128", "camellia192", "camellia256", "cast5", "blowfish", "tripledes",
    "idea",
];
pub const AEADS: [&str; 3] = ["eax", "ocb", "gcm"];
pub const HASHES: [&str; 5] = ["sha256", "sha384", "sha512", "sha3_256", "sha3_512"];
pub const COMPRESSIONS: [&str; 4] = ["none", "zip", "zlib", "bzip2"];

pub fn sym(s: &str) -> SymmetricKeyAlgorithm {
    use SymmetricKeyAlgorithm::*;
    match s {
        "aes128" => AES128,
        "aes192" => AES192,
        "aes256" => AES256,
        "twofish" => Twofish,
        "camellia128" => Camellia128,
        "camellia192" => Camellia192,
        "camellia256" => Camellia256,
        "cast5" => CAST5,
        "blowfish" => Blowfish,
        "tripledes" => TripleDES,
        "idea" => IDEA,
        _ => AES128,
    }
}
pub fn aead(s: &str) -> AeadAlgorithm {
    match s {
        "eax" => AeadAlgorithm::Eax,
        "gcm" => AeadAlgorithm::Gcm,
        _ => AeadAlgorithm::Ocb,
    }
}
pub fn hash(s: &str) -> HashAlgorithm {
    match s {
        "sha1" => HashAlgorithm::Sha1,
        "sha224" => HashAlgorithm::Sha224,
        "sha384" => HashAlgorithm::Sha384,
        "sha512" => HashAlgorithm::Sha512,
        "sha3_256" => HashAlgorithm::Sha3_256,
        "sha3_512" => HashAlgorithm::Sha3_512,
        _ => HashAlgorithm::Sha256,
    }
}
/// explicit subpacket areas: "none" = creation time only; "fp" = + issuer fingerprint (hashed);
/// "keyid" = + issuer key id (unhashed; v4 keys only, v6 keys get "fp"); anything else = library default
pub fn subpacket_config(which: &str, k: &keys::PoolKey) -> pgp::composed::SubpacketConfig {
    use pgp::packet::{Subpacket, SubpacketData};
    use pgp::types::KeyDetails;
    let created = || Subpacket::regular(SubpacketData::SignatureCreationTime(pgp::types::Timestamp::now())).expect("subpacket");
    match (which, k.v6) {
        ("none", _) => pgp::composed::SubpacketConfig::UserDefined { hashed: vec![created()], unhashed: vec![] },
        ("fp", _) | ("keyid", true) => pgp::composed::SubpacketConfig::UserDefined {
            hashed: vec![created(), Subpacket::regular(SubpacketData::IssuerFingerprint(k.secret.fingerprint())).expect("subpacket")],
            unhashed: vec![],
        },
        ("keyid", false) => pgp::composed::SubpacketConfig::UserDefined {
            hashed: vec![created()],
            unhashed: vec![Subpacket::regular(SubpacketData::IssuerKeyId(k.secret.legacy_key_id())).expect("subpacket")],
        },
        _ => pgp::composed::SubpacketConfig::Default,
    }
}

pub fn compression(s: &str) -> Option<CompressionAlgorithm> {
    match s {
        "zip" => Some(CompressionAlgorithm::ZIP),
        "zlib" => Some(CompressionAlgorithm::ZLIB),
        "bzip2" => Some(CompressionAlgorithm::BZip2),
        "uncompressed" => Some(CompressionAlgorithm::Uncompressed),
        _ => None,
    }
}
pub fn chunk_size(exp: u64) -> ChunkSize {
    ChunkSize::try_from(exp.min(16) as u8).unwrap_or_default()
}

/// S2K from explicit JSON.  Salts come from the RNG seam.
pub fn s2k(v: &Value, rng: &mut SimRng) -> StringToKey {
    use rand::RngCore;
    match jstr(v, "k") {
        "simple" => StringToKey::Simple { hash_alg: hash(jstr(v, "hash")) },
        "salted" => {
            let mut salt = [0u8; 8];
            rng.fill_bytes(&mut salt);
            StringToKey::Salted { hash_alg: hash(jstr(v, "hash")), salt }
        }
        "argon2" => StringToKey::new_argon2(rng, jusize(v, "t").max(1) as u8, jusize(v, "p").max(1) as u8, jusize(v, "m").max(3) as u8),
        _ => StringToKey::new_iterated(rng, hash(jstr(v, "hash")), ju64(v, "count") as u8),
    }
}

pub fn plan_s2k(p: &mut Planner) -> Value {
    match p.below(6) {
        // (unsalted "simple" S2K is refused by rpgp's encrypt APIs, so it is never planned)
        0 | 1 => json!({"k":"salted","hash": *p.pick(&["sha256","sha512"])}),
        2 => json!({"k":"argon2","t":1,"p":1,"m": p.range(3, 6)}),
        _ => json!({"k":"iterated","hash": *p.pick(&["sha256","sha384","sha512"]),"count": p.range(0, 120)}),
    }
}

#[derive(Default)]
pub struct BuildInfo {
    pub session_key: Option<RawSessionKey>,
    pub sym: Option<SymmetricKeyAlgorithm>,
    pub v2: bool,
}

/// The source of the builder.
pub enum Source {
    Bytes(Vec<u8>),
    Reader(SimReader),
    File(std::path::PathBuf),
}

fn finish<R: Read, E: pgp::composed::Encryption, W: Write>(
    b: pgp::composed::MessageBuilder<'_, R, E>,
    cfg: &Value,
    rng: &mut SimRng,
    sink: W,
) -> pgp::errors::Result<()> {
    if jbool(cfg, "armor") {
        let headers: Option<pgp::armor::Headers> = cfg.get("armor_headers").and_then(|h| h.as_array()).map(|a| {
            let mut m = pgp::armor::Headers::new();
            for kv in a {
                m.entry(kv[0].as_str().unwrap_or("Comment").to_string())
                    .or_insert_with(Vec::new)
                    .push(kv[1].as_str().unwrap_or("").to_string());
            }
            m
        });
        let opts = ArmorOptions { headers: headers.as_ref(), include_checksum: cfg.get("checksum").and_then(|x| x.as_bool()).unwrap_or(true) };
        b.to_armored_writer(rng, opts, sink)
    } else {
        b.to_writer(rng, sink)
    }
}

fn configure<'a, R: Read, W: Write>(
    mut b: MessageBuilder<'a, R>,
    cfg: &'a Value,
    rng: &mut SimRng,
    sink: W,
    info: &mut BuildInfo,
) -> pgp::errors::Result<()> {
    if jstr(cfg, "data_mode") == "utf8" {
        b.data_mode(DataMode::Utf8)?;
    }
    if let Some(p) = cfg.get("partial").and_then(|x| x.as_u64()) {
        b.partial_chunk_size(p as u32)?;
    }
    if let Some(c) = compression(jstr(cfg, "compression")) {
        b.compression(c);
    }
    if jbool(cfg, "sign_text") {
        b.sign_text();
    }
    if let Some(signers) = cfg.get("signers").and_then(|s| s.as_array()) {
        for s in signers {
            let k = keys::get(jstr(s, "key"));
            match jstr(s, "subpackets") {
                "" | "default" => b.sign(&*k.secret, Password::from(k.password), hash(jstr(s, "hash"))),
                which => b.sign_with_subpackets(&*k.secret, Password::from(k.password), hash(jstr(s, "hash")), subpacket_config(which, k)),
            };
        }
    }
    let enc = cfg.get("enc").cloned().unwrap_or(json!({"k":"none"}));
    let recipients = cfg.get("recipients").and_then(|r| r.as_array()).cloned().unwrap_or_default();
    let passwords = cfg.get("passwords").and_then(|r| r.as_array()).cloned().unwrap_or_default();
    match jstr(&enc, "k") {
        "v1" => {
            let s = sym(jstr(&enc, "sym"));
            let mut b = b.seipd_v1(&mut *rng, s);
            for r in &recipients {
                let k = keys::get(jstr(r, "key"));
                let sub = k.public.public_subkeys.get(r.get("sub").and_then(|x| x.as_u64()).unwrap_or(0) as usize).expect("pool key has that encryption subkey");
                if jbool(r, "anon") {
                    b.encrypt_to_key_anonymous(&mut *rng, sub)?;
                } else {
                    b.encrypt_to_key(&mut *rng, sub)?;
                }
            }
            for p in &passwords {
                let s2k = s2k(&p["s2k"], rng);
                b.encrypt_with_password(s2k, &Password::from(jstr(p, "pw")))?;
            }
            info.session_key = Some(b.session_key().clone());
            info.sym = Some(s);
            finish(b, cfg, rng, sink)
        }
        "v2" => {
            let s = sym(jstr(&enc, "sym"));
            let mut b = b.seipd_v2(&mut *rng, s, aead(jstr(&enc, "aead")), chunk_size(ju64(&enc, "chunk")));
            for r in &recipients {
                let k = keys::get(jstr(r, "key"));
                let sub = k.public.public_subkeys.get(r.get("sub").and_then(|x| x.as_u64()).unwrap_or(0) as usize).expect("pool key has that encryption subkey");
                if jbool(r, "anon") {
                    b.encrypt_to_key_anonymous(&mut *rng, sub)?;
                } else {
                    b.encrypt_to_key(&mut *rng, sub)?;
                }
            }
            for p in &passwords {
                let s2k = s2k(&p["s2k"], rng);
                b.encrypt_with_password(&mut *rng, s2k, &Password::from(jstr(p, "pw")))?;
            }
            info.session_key = Some(b.session_key().clone());
            info.sym = Some(s);
            info.v2 = true;
            finish(b, cfg, rng, sink)
        }
        _ => finish(b, cfg, rng, sink),
    }
}

/// Run the real builder.  `cfg` keys: data_mode, partial, compression, sign_text, signers[],
/// enc{k,sym,aead,chunk}, recipients[], passwords[], armor, checksum, file_name.
pub fn build<W: Write>(cfg: &Value, source: Source, rng: &mut SimRng, sink: W) -> (pgp::errors::Result<()>, BuildInfo) {
    let mut info = BuildInfo::default();
    let name = jstr(cfg, "file_name").to_string();
    let r = match source {
        Source::Bytes(b) => configure(MessageBuilder::from_bytes(name, b), cfg, rng, sink, &mut info),
        Source::Reader(r) => configure(MessageBuilder::from_reader(name, r), cfg, rng, sink, &mut info),
        Source::File(p) => configure(MessageBuilder::from_file(p), cfg, rng, sink, &mut info),
    };
    (r, info)
}

/// Convenience: fault-free reference build into a Vec.
pub fn build_reference(cfg: &Value, payload: &[u8], rng_key: u64, bias: bool) -> (pgp::errors::Result<Vec<u8>>, BuildInfo) {
    let mut rng = SimRng::new(rng_key, "builder", bias);
    let mut out = Vec::new();
    let src = if jstr(cfg, "source") == "bytes" { Source::Bytes(payload.to_vec()) } else { Source::Reader(SimReader::plain(payload)) };
    let (r, info) = build(cfg, src, &mut rng, &mut out);
    (r.map(|_| out), info)
}

// ------------------------------------------------------------------------------- reading

/// How the consumer opens the (possibly encrypted) message.
#[derive(Clone, Debug)]
pub enum Opener {
    None,
    SessionKey(PlainSessionKey),
    Password(String),
    Key(&'static str),
}

#[derive(Debug)]
pub struct ReadOutcome {
    /// bytes released to the consumer before the end
    pub data: Vec<u8>,
    /// Ok = clean end of stream; Err(text) = an error from any stage (stage name first)
    pub end: Result<(), String>,
    /// stage that failed: "parse" | "decrypt" | "decompress" | "read" | "verify"
    pub stage: &'static str,
    pub mode_utf8: bool,
    pub file_name: Vec<u8>,
    pub created: u32,
    pub header_seen: bool,
    /// verification verdict per signer index (outermost first), after a clean end
    pub verdicts: Vec<bool>,
    pub num_signatures: usize,
    pub sigs_all_attributed: bool,
    pub armor_headers: Option<pgp::armor::Headers>,
    /// with `opts` bit 2: what three more calls after the first error produced (octets, clean end seen)
    pub after_error: Option<(usize, bool)>,
}

impl Default for ReadOutcome {
    fn default() -> Self {
        ReadOutcome {
            data: Vec::new(),
            end: Ok(()),
            stage: "",
            mode_utf8: false,
            file_name: Vec::new(),
            created: 0,
            header_seen: false,
            verdicts: Vec::new(),
            num_signatures: 0,
            sigs_all_attributed: false,
            armor_headers: None,
            after_error: None,
        }
    }
}

pub fn session_key(info: &BuildInfo) -> Option<PlainSessionKey> {
    let key = info.session_key.clone()?;
    Some(if info.v2 { PlainSessionKey::V6 { key } } else { PlainSessionKey::V3_4 { sym_alg: info.sym?, key } })
}

pub struct ReadSpec<'a> {
    pub armor: bool,
    pub opener: Opener,
    pub consumer: &'a Consumer,
    /// pool key names whose public halves verify signature i (outermost first)
    pub verifiers: Vec<&'static str>,
    pub max: usize,
    pub streaming_v1: bool,
    /// SEIPDv1 default mode with an explicit `max_message_size`
    pub v1_limit: Option<usize>,
    /// decryption options: bit 0 = enable_gnupg_aead, bit 1 = enable_legacy (SED);
    /// bit 2: a consumer that calls the reader again after an error (read, fill_buf, read_to_end);
    /// bit 3: the SEIPDv1 read mode is set before the enable_* calls instead of after them;
    /// bit 4: the recipient refuses a message that is not encrypted
    pub opts: u8,
}

/// Run the real reader over `input` and drain it with the consumer script.
pub fn read_message<R: BufRead + std::fmt::Debug + Send>(input: R, spec: &ReadSpec<'_>) -> ReadOutcome {
    let mut out = ReadOutcome::default();
    let (msg, headers) = if spec.armor {
        match Message::from_armor(input) {
            Ok((m, h)) => (m, Some(h)),
            Err(e) => {
                out.end = Err(format!("{e}"));
                out.stage = "parse";
                return out;
            }
        }
    } else {
        match Message::from_bytes(input) {
            Ok(m) => (m, None),
            Err(e) => {
                out.end = Err(format!("{e}"));
                out.stage = "parse";
                return out;
            }
        }
    };
    out.armor_headers = headers;
    // bit 4: the recipient expects an encrypted message and refuses anything else (what arrives after
    // damage to the outermost packet header may parse as some other kind of message)
    if spec.opts & 16 != 0 && !msg.is_encrypted() {
        out.end = Err("not an encrypted message".into());
        out.stage = "decrypt";
        return out;
    }
    let msg = if msg.is_encrypted() {
        let r = match &spec.opener {
            Opener::None => Ok(msg),
            opener => {
                let mut options = pgp::composed::DecryptionOptions::new();
                let set_mode = |o: pgp::composed::DecryptionOptions| {
                    if spec.streaming_v1 {
                        o.set_seipdv1_read_mode(pgp::types::Seipdv1ReadMode::Streaming)
                    } else if let Some(l) = spec.v1_limit {
                        o.set_seipdv1_read_mode(pgp::types::Seipdv1ReadMode::CheckFirst { max_message_size: l })
                    } else {
                        o
                    }
                };
                // (bit 3: the read mode is set before the enable_* calls instead of after them)
                if spec.opts & 8 != 0 {
                    options = set_mode(options);
                }
                if spec.opts & 1 != 0 {
                    options = options.enable_gnupg_aead();
                }
                if spec.opts & 2 != 0 {
                    options = options.enable_legacy();
                }
                if spec.opts & 8 == 0 {
                    options = set_mode(options);
                }
                let plain_ring = spec.opts & 3 == 0 && !spec.streaming_v1 && spec.v1_limit.is_none();
                match opener {
                    // the convenience entry points when no option is needed (they are what users call)
                    Opener::SessionKey(sk) if plain_ring => msg.decrypt_with_session_key(sk.clone()),
                    Opener::Password(pw) if plain_ring => msg.decrypt_with_password(&Password::from(pw.as_str())),
                    Opener::Key(name) if plain_ring => {
                        let k = keys::get(name);
                        msg.decrypt(&Password::from(k.password), &k.secret)
                    }
                    Opener::SessionKey(sk) => {
                        let ring = pgp::composed::TheRing { session_keys: vec![sk.clone()], decrypt_options: options, ..Default::default() };
                        msg.decrypt_the_ring(ring, true).map(|(m, _)| m)
                    }
                    Opener::Password(pw) => {
                        let pw = Password::from(pw.as_str());
                        let ring = pgp::composed::TheRing { message_password: vec![&pw], decrypt_options: options, ..Default::default() };
                        msg.decrypt_the_ring(ring, true).map(|(m, _)| m)
                    }
                    Opener::Key(name) => {
                        let k = keys::get(name);
                        let pw = Password::from(k.password);
                        let ring = pgp::composed::TheRing { secret_keys: vec![&k.secret], key_passwords: vec![&pw], decrypt_options: options, ..Default::default() };
                        msg.decrypt_the_ring(ring, true).map(|(m, _)| m)
                    }
                    Opener::None => Ok(msg),
                }
            }
        };
        match r {
            Ok(m) => m,
            Err(e) => {
                out.end = Err(format!("{e}"));
                out.stage = "decrypt";
                return out;
            }
        }
    } else {
        msg
    };
    let mut msg = if msg.is_compressed() || msg.is_signed() {
        match msg.decompress() {
            Ok(m) => m,
            Err(e) => {
                out.end = Err(format!("{e}"));
                out.stage = "decompress";
                return out;
            }
        }
    } else {
        msg
    };
    // Accessors are only used in states where the API documents them as available: the literal
    // header before draining (if already known) and after a clean end — never after an error
    // (rpgp's readers are poisoned after an error and their accessors are not meant to be called).
    let grab = |msg: &Message<'_>, out: &mut ReadOutcome| {
        if let Some(h) = msg.literal_data_header() {
            out.header_seen = true;
            out.mode_utf8 = h.mode() == DataMode::Utf8;
            out.file_name = h.file_name().to_vec();
            out.created = h.created().as_secs();
        }
    };
    grab(&msg, &mut out);
    let (data, end) = seams::drain(&mut msg, spec.consumer, spec.max);
    out.data = data;
    match end {
        Ok(()) => {}
        Err(e) => {
            out.end = Err(format!("{:?}: {e}", e.kind()));
            out.stage = "read";
            if std::env::var("VERIF_DEBUG").is_ok() {
                eprintln!("read_message: read error {:?}", out.end);
            }
            if spec.opts & 4 != 0 {
                // a caller is free to call again after an error: the reader must answer (anything), not panic
                let mut n = 0usize;
                let mut clean = false;
                let mut buf = [0u8; 64];
                let dbg = std::env::var("VERIF_DEBUG").is_ok();
                match msg.read(&mut buf) {
                    Ok(0) => clean = true,
                    Ok(k) => n += k,
                    Err(e) => {
                        if dbg {
                            eprintln!("read_message: read after the error: {e}");
                        }
                    }
                }
                if dbg {
                    eprintln!("read_message: after read: {n} octets, clean={clean}");
                }
                match msg.fill_buf().map(|b| b.len()) {
                    Ok(0) => clean = true,
                    Ok(k) => {
                        n += k;
                        msg.consume(k);
                    }
                    Err(_) => {}
                }
                let mut rest = Vec::new();
                match (&mut msg).take(1 << 16).read_to_end(&mut rest) {
                    Ok(k) => {
                        n += k;
                        clean |= k < (1 << 16);
                    }
                    Err(_) => n += rest.len(),
                }
                out.after_error = Some((n, clean));
            }
            return out;
        }
    }
    grab(&msg, &mut out);
    if let Message::Signed { reader, .. } = &msg {
        out.num_signatures = reader.num_signatures();
    }
    if std::env::var("VERIF_DEBUG").is_ok() {
        eprintln!("read_message: clean end, {} bytes, {} signatures", out.data.len(), out.num_signatures);
    }
    // signer j is "verified" if some embedded signature verifies under its public key
    for name in spec.verifiers.iter() {
        let k = keys::get(name);
        let ok = (0..out.num_signatures).any(|i| msg.verify_nested_explicit(i, &k.public).is_ok());
        out.verdicts.push(ok);
    }
    // (the batch entry point is exercised too; its verdicts are the same per-signature checks)
    {
        let publics: Vec<&dyn pgp::types::VerifyingKey> = spec.verifiers.iter().map(|n| &keys::get(n).public as &dyn pgp::types::VerifyingKey).collect();
        if !publics.is_empty() {
            let _ = msg.verify_nested(&publics);
        }
    }
    // and every embedded signature must verify under some expected signer
    out.sigs_all_attributed = (0..out.num_signatures)
        .all(|i| spec.verifiers.iter().any(|n| msg.verify_nested_explicit(i, &keys::get(n).public).is_ok()));
    out.end = Ok(());
    out
}

// ------------------------------------------------------------------------------- planning

/// Payload lengths on and next to the boundaries that matter for `cfg`.
pub fn boundary_len(p: &mut Planner, cfg: &Value, max: usize) -> usize {
    let partial = cfg.get("partial").and_then(|x| x.as_u64()).unwrap_or(512 * 1024) as usize;
    let chunk = 1usize << (cfg["enc"].get("chunk").and_then(|x| x.as_u64()).unwrap_or(6) + 6);
    let name_len = jstr(cfg, "file_name").len();
    let lit_hdr = 6 + name_len;
    let seipd_cfg = if jstr(&cfg["enc"], "k") == "v2" { 36 } else { 1 };
    let bases: Vec<usize> = vec![
        0,
        1,
        2,
        22,
        512,
        1024,
        8192,
        partial,
        partial.saturating_sub(lit_hdr),
        partial.saturating_sub(1),
        partial.saturating_sub(seipd_cfg),
        partial.saturating_sub(seipd_cfg + lit_hdr),
        chunk,
        chunk + 16,
        chunk.saturating_sub(lit_hdr),
        2 * 8192,
        8192 - lit_hdr,
    ];
    // SEIPDv1: the decrypted stream (literal packet + 22 MDC octets) ends on a refill boundary of the
    // decryptor: 8192 first, then 8192 less the 22 octets it holds back
    if jstr(&cfg["enc"], "k") == "v1" && p.chance(1, 6) {
        let k = p.below(3);
        let hdr = *p.pick(&[3usize, 3, 6]);
        let d = p.range(0, 2) as isize - 1;
        let v = (8192 + k * 8170) as isize - 22 - (lit_hdr + hdr) as isize + d;
        return (v.max(0) as usize).min(max);
    }
    let v = match p.below(10) {
        0..=5 => {
            let b = *p.pick(&bases);
            let k = p.range(1, 3);
            let d = p.range(0, 4) as isize - 2;
            ((b * k) as isize + d).max(0) as usize
        }
        6 | 7 => p.range(0, 600),
        _ => p.range(0, max),
    };
    v.min(max)
}

/// A swarm-style builder configuration (explicit JSON).
pub fn plan_cfg(p: &mut Planner, thorough: bool, allow_expensive_keys: bool) -> Value {
    let partial_exp = if p.chance(3, 4) { p.range(9, 11) } else { p.range(9, if thorough { 20 } else { 14 }) };
    let enc = match p.below(5) {
        0 | 1 => json!({"k":"none"}),
        2 => json!({"k":"v1","sym": if p.chance(1,2) { "aes128" } else { *p.pick(&SYMS) }}),
        _ => json!({"k":"v2","sym": *p.pick(&["aes128","aes192","aes256"]), "aead": *p.pick(&AEADS),
                    "chunk": if p.chance(3,4) { p.range(0, 4) } else { p.range(0, if thorough { 16 } else { 8 }) }}),
    };
    let encrypted = jstr(&enc, "k") != "none";
    let names = keys::signer_names(!allow_expensive_keys);
    let nsign = match p.below(8) {
        0..=3 => 0,
        4 | 5 => 1,
        6 => 2,
        _ => 3,
    };
    let v2 = jstr(&enc, "k") == "v2";
    let signers: Vec<Value> = (0..nsign)
        .map(|_| {
            let key = *p.pick(&names);
            // rpgp refuses hashes weaker than the curve; plan only accepted pairs
            let hashes: &[&str] = match key {
                "ed448-v6" | "p521-v4" => &["sha512", "sha3_512"],
                "p384-v6" => &["sha384", "sha512", "sha3_512"],
                _ => &HASHES,
            };
            json!({"key": key, "hash": *p.pick(hashes)})
        })
        .collect();
    let enc_keys: Vec<&str> = keys::pool()
        .iter()
        .filter(|k| !k.name.starts_with("outsider") && !k.name.starts_with("multisub") && (allow_expensive_keys || k.cheap))
        .filter(|k| k.name != "dsa-v4" || allow_expensive_keys)
        .map(|k| k.name)
        .collect();
    let mut recipients = Vec::new();
    let mut passwords = Vec::new();
    if encrypted {
        let nr = p.below(3);
        for _ in 0..nr {
            recipients.push(json!({"key": *p.pick(&enc_keys), "anon": p.chance(1,4)}));
        }
        let np = if nr == 0 { p.range(0, 2) } else { p.below(2) };
        for i in 0..np {
            let mut s = plan_s2k(p);
            if !v2 && jstr(&s, "k") == "argon2" {
                s = json!({"k":"iterated","hash":"sha256","count": 10});
            }
            passwords.push(json!({"pw": format!("pw-{i}-{}", p.below(1000)), "s2k": s}));
        }
    }
    let utf8 = p.chance(1, 5);
    json!({
        "source": *p.pick(&["reader","reader","reader","bytes"]),
        "file_name": *p.pick(&["", "a.txt", "some-longer-file-name.bin"]),
        "data_mode": if utf8 { "utf8" } else { "binary" },
        "partial": 1u64 << partial_exp,
        "compression": *p.pick(&["none","none","zip","zlib","bzip2"]),
        "sign_text": p.chance(1,3),
        "signers": signers,
        "enc": enc,
        "recipients": recipients,
        "passwords": passwords,
        "armor": p.chance(1,3),
        "checksum": p.chance(3,4),
        "rng_key": p.u64(),
        "bias": p.chance(1,4),
    })
}

pub fn plan_payload(p: &mut Planner, cfg: &Value, max: usize) -> Value {
    let len = boundary_len(p, cfg, max);
    let gen = if jstr(cfg, "data_mode") == "utf8" {
        "utf8crlf"
    } else {
        *p.pick(&["random", "random", "text", "crlfmix", "lowent", "zeros"])
    };
    json!({"gen": gen, "len": len, "key": p.u64()})
}

/// which opener a reader should use for a message built from cfg
pub fn default_opener(cfg: &Value, info: &BuildInfo, p_choice: usize) -> Opener {
    if jstr(&cfg["enc"], "k") == "none" {
        return Opener::None;
    }
    let recipients = cfg["recipients"].as_array().cloned().unwrap_or_default();
    let passwords = cfg["passwords"].as_array().cloned().unwrap_or_default();
    let n = recipients.len() + passwords.len() + 1;
    let c = p_choice % n;
    if c < recipients.len() {
        let name = jstr(&recipients[c], "key");
        return Opener::Key(keys::get(name).name);
    }
    if c < recipients.len() + passwords.len() {
        return Opener::Password(jstr(&passwords[c - recipients.len()], "pw").to_string());
    }
    match session_key(info) {
        Some(sk) => Opener::SessionKey(sk),
        None => Opener::None,
    }
}

pub fn verifier_names(cfg: &Value) -> Vec<&'static str> {
    cfg["signers"]
        .as_array()
        .map(|a| a.iter().map(|s| keys::get(jstr(s, "key")).name).collect())
        .unwrap_or_default()
}

pub fn shared(data: Vec<u8>) -> Arc<Vec<u8>> {
    Arc::new(data)
}

#[allow(dead_code)]
pub fn log_calls(l: &SharedLog) -> u64 {
    l.lock().unwrap().calls
}

#[allow(dead_code)]
pub fn mk_faults(v: &Value, key: &str) -> Vec<Fault> {
    seams::faults_from_json(v.get(key))
}

#[allow(dead_code)]
pub fn mk_sched(v: &Value, key: &str) -> Sched {
    v.get(key).map(Sched::from_json).unwrap_or(Sched::Full)
}
