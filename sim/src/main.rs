#![allow(dead_code)]
//! rpgp deterministic simulation with fault injection — driver.
//!
//!   sim <PROPERTY> [--tier quick|thorough] [--seed N] [--threads N]
//!   sim replay <file>
//!   sim list

mod alloc;
mod checks;
mod evidence;
mod keys;
mod model;
mod rng;
mod runner;
mod seams;
mod util;
mod workload;

#[global_allocator]
static GLOBAL: alloc::Counting = alloc::Counting;

use runner::Tier;

fn main() {
    runner::install_panic_hook();
    let args: Vec<String> = std::env::args().skip(1).collect();
    if args.is_empty() {
        eprintln!("usage: sim <PROPERTY> [--tier quick|thorough] [--seed N] | replay <file> | list");
        std::process::exit(2);
    }
    let checks = checks::all();
    match args[0].as_str() {
        "list" => {
            for c in &checks {
                println!("{} {}", c.property, c.families.iter().map(|f| f.name).collect::<Vec<_>>().join(","));
            }
        }
        "stack-probe" => {
            // child of the C04 family `deep_nesting`: the artifact arrives on stdin and is fed to the
            // processing entry points on a thread with the given stack size; a stack overflow kills this
            // process with a signal, which is what the parent looks for
            let kib: usize = args.get(1).and_then(|s| s.parse().ok()).unwrap_or(2048);
            let mut bytes = Vec::new();
            let _ = std::io::Read::read_to_end(&mut std::io::stdin(), &mut bytes);
            let h = std::thread::Builder::new().stack_size(kib * 1024).spawn(move || checks::c04::probe_entry_points(bytes)).expect("spawn probe thread");
            std::process::exit(if h.join().is_ok() { 0 } else { 3 });
        }
        "replay" => {
            let Some(p) = args.get(1) else {
                eprintln!("replay needs a path");
                std::process::exit(2)
            };
            std::process::exit(runner::replay_file(&checks, p));
        }
        id => {
            let mut tier = match std::env::var("VERIF_TIER").as_deref() {
                Ok("thorough") => Tier::Thorough,
                _ => Tier::Quick,
            };
            let mut seed: u64 = std::env::var("VERIF_SEED").ok().and_then(|s| s.parse().ok()).unwrap_or(20260925);
            let mut threads: usize = std::env::var("VERIF_THREADS")
                .ok()
                .and_then(|s| s.parse().ok())
                .unwrap_or_else(|| std::thread::available_parallelism().map(|n| n.get()).unwrap_or(8).min(16));
            let mut i = 1;
            while i < args.len() {
                match args[i].as_str() {
                    "--tier" => {
                        tier = if args.get(i + 1).map(|s| s.as_str()) == Some("thorough") { Tier::Thorough } else { Tier::Quick };
                        i += 1;
                    }
                    "--seed" => {
                        seed = args.get(i + 1).and_then(|s| s.parse().ok()).unwrap_or(seed);
                        i += 1;
                    }
                    "--threads" => {
                        threads = args.get(i + 1).and_then(|s| s.parse().ok()).unwrap_or(threads);
                        i += 1;
                    }
                    _ => {}
                }
                i += 1;
            }
            let Some(check) = checks.iter().find(|c| c.property == id) else {
                eprintln!("unknown property {id}");
                std::process::exit(2);
            };
            let out = runner::run_check(check, tier, seed, threads.max(1));
            std::process::exit(if out.violations > 0 { 1 } else { 0 });
        }
    }
}
