//! Evidence file writer (schema: /root/.vp/EVIDENCE.schema.json).

use serde_json::{json, Map, Value};

use crate::runner::{verif_root, Check, Rec, Tier};

#[allow(clippy::too_many_arguments)]
pub fn write(
    check: &Check,
    tier: Tier,
    seed: u64,
    total: &Rec,
    per_family: Map<String, Value>,
    wall: f64,
    violations: usize,
    known: &[String],
    threads: usize,
) {
    let mut faults = Map::new();
    let mut scheds = Map::new();
    let mut probes = Map::new();
    let mut consumers = Map::new();
    let mut other = Map::new();
    for (k, v) in &total.counters {
        let (m, name) = if let Some(r) = k.strip_prefix("fault:") {
            (&mut faults, r)
        } else if let Some(r) = k.strip_prefix("sched:") {
            (&mut scheds, r)
        } else if let Some(r) = k.strip_prefix("probe:") {
            (&mut probes, r)
        } else if let Some(r) = k.strip_prefix("consumer:") {
            (&mut consumers, r)
        } else {
            (&mut other, k.as_str())
        };
        m.insert(name.to_string(), json!(v));
    }
    let zero_probes: Vec<&String> = probes.iter().filter(|(_, v)| v.as_u64() == Some(0)).map(|(k, _)| k).collect();
    for p in &zero_probes {
        println!("  warning: reach probe '{p}' stayed at zero");
    }
    let runs_per_hour = if wall > 0.0 { (total.evals as f64 / wall * 3600.0) as u64 } else { 0 };
    let samples: Vec<Value> = if total.samples.is_empty() {
        vec![json!("no sample recorded")]
    } else {
        total.samples.clone()
    };
    let doc = json!({
        "property_id": check.property,
        "tier": match tier { Tier::Quick => "quick", Tier::Thorough => "thorough" },
        "seed": seed,
        "level": check.level,
        "coverage": {
            "evaluations": total.evals,
            "distinct_nontrivial": total.hashes.len(),
            "rule": check.rule,
            "samples": samples,
            "exhaustive": false,
            "simulated_runs_per_hour": runs_per_hour,
            "seam_calls_simulated": total.seam_calls,
            "simulated_time_note": "rpgp has no timers or deadlines; the meaningful measure of simulated time is the number of seam calls (source reads, sink writes/flushes, consumer calls) executed under simulator control",
            "faults_fired": faults,
            "schedules_used": scheds,
            "consumer_apis": consumers,
            "reach_probes": probes,
            "other_counters": other,
            "families": per_family,
            "components_real": check.real,
            "components_stub": check.stubs,
            "worker_threads": threads,
            "known_findings_hit": known,
        },
        "assumptions": check.assumptions,
        "wall_s": (wall * 100.0).round() / 100.0,
        "violations": violations,
    });
    let dir = verif_root().join("evidence");
    let _ = std::fs::create_dir_all(&dir);
    let path = dir.join(format!("{}.json", check.property));
    if let Err(e) = std::fs::write(&path, serde_json::to_string_pretty(&doc).unwrap()) {
        eprintln!("harness error: cannot write evidence {}: {e}", path.display());
        std::process::exit(2);
    }
}
