//! Allocator seam: accounting only (nothing is decided here).  Thread-local counters, so each
//! simulated run — executed start to finish on one worker thread — has its own account.

use std::{
    alloc::{GlobalAlloc, Layout, System},
    cell::Cell,
};

pub struct Counting;

/// A single request of this size or more is never legitimate in a simulated run; the system allocator
/// would refuse it and the process would abort (allocation failure does not unwind), so the trap
/// registered by the runner reports it as a violation with a replay file instead.
/// (rpgp's documented Argon2 ceiling is 2 GiB in one allocation, so the threshold sits above that.)
pub const HUGE: usize = 1 << 32;
static TRAP: std::sync::atomic::AtomicUsize = std::sync::atomic::AtomicUsize::new(0);

pub fn set_trap(f: fn(usize)) {
    TRAP.store(f as usize, std::sync::atomic::Ordering::SeqCst);
}

#[cold]
#[allow(unsafe_code)]
fn huge(size: usize) {
    let f = TRAP.load(std::sync::atomic::Ordering::SeqCst);
    if f != 0 {
        // SAFETY: only `set_trap` stores here, and it stores a `fn(usize)`
        let f: fn(usize) = unsafe { std::mem::transmute(f) };
        f(size);
    }
}

thread_local! {
    static LIVE: Cell<isize> = const { Cell::new(0) };
    static PEAK: Cell<isize> = const { Cell::new(0) };
    static CUM: Cell<u64> = const { Cell::new(0) };
    static BIGGEST: Cell<usize> = const { Cell::new(0) };
    static ARMED: Cell<bool> = const { Cell::new(false) };
    // invariant parameters while armed: peak <= A * delivered + C
    static INV_A: Cell<u64> = const { Cell::new(0) };
    static INV_C: Cell<u64> = const { Cell::new(0) };
    static INV_BROKEN: Cell<Option<(u64, u64)>> = const { Cell::new(None) };
    // most bytes any source of this run has delivered so far (several parsers may re-read the same input)
    static MAX_DELIVERED: Cell<u64> = const { Cell::new(0) };
    static TRACE: Cell<bool> = const { Cell::new(false) };
    static IN_TRACE: Cell<bool> = const { Cell::new(false) };
}

#[inline]
fn on_alloc(size: usize) {
    let _ = LIVE.try_with(|l| {
        let v = l.get() + size as isize;
        l.set(v);
        let _ = PEAK.try_with(|p| {
            if v > p.get() {
                p.set(v)
            }
        });
    });
    let _ = CUM.try_with(|c| c.set(c.get() + size as u64));
    let _ = BIGGEST.try_with(|b| {
        if size > b.get() {
            b.set(size)
        }
    });
    if size >= 48 * 1024 && TRACE.try_with(|t| t.get()).unwrap_or(false) && !IN_TRACE.try_with(|t| t.replace(true)).unwrap_or(true) {
        eprintln!("ALLOC {size} bytes\n{}", std::backtrace::Backtrace::force_capture());
        let _ = IN_TRACE.try_with(|t| t.set(false));
    }
}

#[inline]
fn on_free(size: usize) {
    let _ = LIVE.try_with(|l| l.set(l.get() - size as isize));
}

#[allow(unsafe_code)]
unsafe impl GlobalAlloc for Counting {
    unsafe fn alloc(&self, layout: Layout) -> *mut u8 {
        if layout.size() >= HUGE {
            huge(layout.size());
        }
        let p = System.alloc(layout);
        if !p.is_null() {
            on_alloc(layout.size());
        }
        p
    }
    unsafe fn alloc_zeroed(&self, layout: Layout) -> *mut u8 {
        if layout.size() >= HUGE {
            huge(layout.size());
        }
        let p = System.alloc_zeroed(layout);
        if !p.is_null() {
            on_alloc(layout.size());
        }
        p
    }
    unsafe fn dealloc(&self, ptr: *mut u8, layout: Layout) {
        System.dealloc(ptr, layout);
        on_free(layout.size());
    }
    unsafe fn realloc(&self, ptr: *mut u8, layout: Layout, new_size: usize) -> *mut u8 {
        if new_size >= HUGE {
            huge(new_size);
        }
        let p = System.realloc(ptr, layout, new_size);
        if !p.is_null() {
            on_free(layout.size());
            on_alloc(new_size);
        }
        p
    }
}

#[derive(Clone, Copy, Debug, Default)]
pub struct Account {
    pub peak: u64,
    pub cumulative: u64,
    pub biggest: u64,
    pub live_end: i64,
}

/// Start a fresh account on this thread: live is taken as the zero point.
pub fn mark() {
    LIVE.with(|l| l.set(0));
    PEAK.with(|p| p.set(0));
    CUM.with(|c| c.set(0));
    BIGGEST.with(|b| b.set(0));
    INV_BROKEN.with(|b| b.set(None));
    MAX_DELIVERED.with(|m| m.set(0));
    TRACE.with(|t| t.set(std::env::var("VERIF_ALLOC_TRACE").is_ok()));
}

pub fn account() -> Account {
    Account {
        peak: PEAK.with(|p| p.get()).max(0) as u64,
        cumulative: CUM.with(|c| c.get()),
        biggest: BIGGEST.with(|b| b.get()) as u64,
        live_end: LIVE.with(|l| l.get()) as i64,
    }
}

/// Arm the running invariant `peak <= a * delivered + c`, evaluated at every source seam call.
pub fn arm(a: u64, c: u64) {
    INV_A.with(|x| x.set(a));
    INV_C.with(|x| x.set(c));
    ARMED.with(|x| x.set(true));
}

pub fn disarm() -> Option<(u64, u64)> {
    ARMED.with(|x| x.set(false));
    TRACE.with(|t| t.set(false));
    INV_BROKEN.with(|b| b.get())
}

/// Called by the source seam before serving a call: `delivered` bytes have been handed out so far.
#[inline]
pub fn on_seam(delivered: u64) {
    if !ARMED.with(|x| x.get()) {
        return;
    }
    let delivered = MAX_DELIVERED.with(|m| {
        let v = m.get().max(delivered);
        m.set(v);
        v
    });
    let peak = PEAK.with(|p| p.get()).max(0) as u64;
    let bound = INV_A.with(|x| x.get()).saturating_mul(delivered).saturating_add(INV_C.with(|x| x.get()));
    if peak > bound {
        INV_BROKEN.with(|b| {
            if b.get().is_none() {
                b.set(Some((delivered, peak)))
            }
        });
    }
}
