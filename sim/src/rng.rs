//! RNG seam: ChaCha20 keyed from the plan (never from the OS), with an optional bias mode.

use rand::{CryptoRng, RngCore, SeedableRng};
use rand_chacha::ChaCha20Rng;

pub struct SimRng {
    inner: ChaCha20Rng,
    side: ChaCha20Rng,
    bias: bool,
    pub draws: u64,
    pub biased: u64,
}

impl SimRng {
    pub fn new(key: u64, label: &str, bias: bool) -> Self {
        let mut k = [0u8; 32];
        k[..8].copy_from_slice(&key.to_le_bytes());
        k[8..16].copy_from_slice(&crate::util::fnv_of(&[label.as_bytes()]).to_le_bytes());
        let mut k2 = k;
        k2[31] = 0xA5;
        // Every operation that gets a fresh SimRng also restarts the two hooks that have no
        // parameter seam: the simulated clock and the "hidden" RNG used inside dependencies.
        pgp::types::verif_clock::seed_hidden_rng(u64::from_le_bytes(k[..8].try_into().unwrap()) ^ u64::from_le_bytes(k[8..16].try_into().unwrap()));
        crate::runner::reset_clock();
        SimRng {
            inner: ChaCha20Rng::from_seed(k),
            side: ChaCha20Rng::from_seed(k2),
            bias,
            draws: 0,
            biased: 0,
        }
    }
}

impl RngCore for SimRng {
    fn next_u32(&mut self) -> u32 {
        self.draws += 1;
        self.inner.next_u32()
    }
    fn next_u64(&mut self) -> u64 {
        self.draws += 1;
        self.inner.next_u64()
    }
    fn fill_bytes(&mut self, dest: &mut [u8]) {
        self.draws += 1;
        self.inner.fill_bytes(dest);
        if self.bias && !dest.is_empty() {
            // F-rng: with probability 1/4 force the first octet to 0x00 or 0xFF, so that
            // leading-zero scalars / MPIs become common.  Rejection samplers are not starved:
            // the remaining octets stay uniformly random and 3/4 of calls are untouched.
            let r = self.side.next_u32();
            if r & 3 == 0 {
                dest[0] = if r & 4 == 0 { 0x00 } else { 0xFF };
                self.biased += 1;
            }
        }
    }
    fn try_fill_bytes(&mut self, dest: &mut [u8]) -> Result<(), rand::Error> {
        self.fill_bytes(dest);
        Ok(())
    }
}

impl CryptoRng for SimRng {}
