//! Small helpers: hashing of event logs, planning PRNG, JSON accessors.

use rand::{Rng, SeedableRng};
use rand_chacha::ChaCha8Rng;
use serde_json::Value;

/// FNV-1a 64 over u64 words — the event-log digest.
#[derive(Clone, Copy, Debug)]
pub struct Fnv(pub u64);

impl Default for Fnv {
    fn default() -> Self {
        Fnv(0xcbf29ce484222325)
    }
}

impl Fnv {
    #[inline]
    pub fn u64(&mut self, v: u64) {
        for b in v.to_le_bytes() {
            self.0 ^= b as u64;
            self.0 = self.0.wrapping_mul(0x100000001b3);
        }
    }
    pub fn bytes(&mut self, v: &[u8]) {
        for b in v {
            self.0 ^= *b as u64;
            self.0 = self.0.wrapping_mul(0x100000001b3);
        }
        self.u64(v.len() as u64);
    }
    pub fn str(&mut self, s: &str) {
        self.bytes(s.as_bytes())
    }
}

pub fn fnv_of(parts: &[&[u8]]) -> u64 {
    let mut f = Fnv::default();
    for p in parts {
        f.bytes(p);
    }
    f.0
}

/// The *planning* PRNG.  Used only to build explicit plans, never while a plan runs.
pub struct Planner(pub ChaCha8Rng);

impl Planner {
    pub fn new(seed: u64, label: &str, index: u64) -> Self {
        let mut key = [0u8; 32];
        key[..8].copy_from_slice(&seed.to_le_bytes());
        key[8..16].copy_from_slice(&fnv_of(&[label.as_bytes()]).to_le_bytes());
        key[16..24].copy_from_slice(&index.to_le_bytes());
        Planner(ChaCha8Rng::from_seed(key))
    }
    pub fn below(&mut self, n: usize) -> usize {
        if n <= 1 {
            0
        } else {
            self.0.gen_range(0..n)
        }
    }
    pub fn range(&mut self, lo: usize, hi_incl: usize) -> usize {
        if hi_incl <= lo {
            lo
        } else {
            self.0.gen_range(lo..=hi_incl)
        }
    }
    pub fn chance(&mut self, num: u32, den: u32) -> bool {
        self.0.gen_range(0..den) < num
    }
    pub fn pick<'a, T>(&mut self, xs: &'a [T]) -> &'a T {
        &xs[self.below(xs.len())]
    }
    pub fn u64(&mut self) -> u64 {
        self.0.gen()
    }
    pub fn bytes(&mut self, n: usize) -> Vec<u8> {
        let mut v = vec![0u8; n];
        self.0.fill(&mut v[..]);
        v
    }
    /// a source/sink schedule in explicit form
    pub fn sched(&mut self) -> crate::seams::Sched {
        use crate::seams::Sched;
        match self.below(10) {
            0 | 1 => Sched::Full,
            2 => Sched::Fixed(1),
            3 | 4 => Sched::Fixed(
                *self.pick(&[2, 3, 7, 63, 64, 65, 511, 512, 513, 767, 768, 1023, 1024, 8191, 8192, 8193]),
            ),
            _ => {
                let max = *self.pick(&[2usize, 5, 17, 100, 600, 1500, 9000, 20000]);
                let n = self.range(2, 48);
                Sched::List((0..n).map(|_| self.range(1, max)).collect())
            }
        }
    }
    pub fn consumer(&mut self, text_ok: bool) -> crate::seams::Consumer {
        use crate::seams::Consumer;
        let sizes = |p: &mut Planner| -> Vec<usize> {
            if p.chance(1, 2) {
                vec![*p.pick(&[1usize, 2, 3, 7, 64, 511, 512, 513, 1024, 4096, 8191, 8192, 8193, 20000])]
            } else {
                let max = *p.pick(&[3usize, 17, 600, 9000]);
                let n = p.range(2, 16);
                let mut v: Vec<usize> = (0..n).map(|_| p.range(1, max)).collect();
                // now and then a zero-length request (read(&mut []): "no octets wanted", not the end)
                if p.chance(1, 4) {
                    let at = p.below(v.len() + 1);
                    v.insert(at, 0);
                }
                v
            }
        };
        match self.below(if text_ok { 8 } else { 7 }) {
            0 | 1 => Consumer::ReadToEnd,
            2 => Consumer::ReadLoop(sizes(self)),
            3 => Consumer::Copy,
            4 => Consumer::FillConsume(sizes(self)),
            5 => Consumer::ReadExact(*self.pick(&[1usize, 5, 64, 1000, 8192])),
            6 => {
                if self.chance(1, 4) {
                    Consumer::Bytes
                } else {
                    Consumer::ReadLoop(sizes(self))
                }
            }
            _ => Consumer::ReadToString,
        }
    }
}

pub fn jstr<'a>(v: &'a Value, k: &str) -> &'a str {
    v.get(k).and_then(|x| x.as_str()).unwrap_or("")
}
pub fn jusize(v: &Value, k: &str) -> usize {
    v.get(k).and_then(|x| x.as_u64()).unwrap_or(0) as usize
}
pub fn ju64(v: &Value, k: &str) -> u64 {
    v.get(k).and_then(|x| x.as_u64()).unwrap_or(0)
}
pub fn jbool(v: &Value, k: &str) -> bool {
    v.get(k).and_then(|x| x.as_bool()).unwrap_or(false)
}
pub fn jhex(v: &Value, k: &str) -> Vec<u8> {
    hex::decode(jstr(v, k)).unwrap_or_default()
}

/// Payload in explicit-but-compact form: {"hex": ".."} or {"gen": kind, "len": n, "key": u64}
/// (a deterministic generator so that megabyte payloads do not bloat replay files; the
/// generator is a pure function of its parameters).
pub fn payload_from_json(v: &Value) -> Vec<u8> {
    if let Some(h) = v.get("hex").and_then(|x| x.as_str()) {
        return hex::decode(h).unwrap_or_default();
    }
    let len = jusize(v, "len");
    let key = ju64(v, "key");
    let mut p = Planner::new(key, "payload", 0);
    match jstr(v, "gen") {
        "zeros" => vec![0u8; len],
        "packets" => {
            // a sequence of well-formed new-format user-id packets (tag 13), padded with a marker-like tail
            let mut out = Vec::with_capacity(len + 40);
            let mut i = 0;
            while out.len() + 34 <= len {
                let uid = format!("smuggled {:04} <evil@example.org>", i % 10000);
                out.push(0xC0 | 13);
                out.push(uid.len() as u8);
                out.extend_from_slice(uid.as_bytes());
                i += 1;
            }
            while out.len() < len {
                out.push(0xCA); // header octet of a marker packet, truncated: harmless filler
            }
            out.truncate(len);
            out
        }
        "text" => gen_text(&mut p, len),
        "utf8crlf" => gen_utf8_crlf(&mut p, len),
        "utf8defect" => {
            // legal CRLF text with exactly one illegal line ending
            let mut t = gen_utf8_crlf(&mut p, len);
            let spots: Vec<usize> = (0..t.len().saturating_sub(1)).filter(|i| t[*i] == b'\r' && t[*i + 1] == b'\n').collect();
            if spots.is_empty() {
                t.extend_from_slice(b"\r\n\n");
            } else {
                let at = *p.pick(&spots);
                match p.below(4) {
                    0 | 1 => t.insert(at + 2, b'\n'), // CR LF LF
                    2 => {
                        t.remove(at); // bare LF
                    }
                    _ => {
                        t.insert(at, b'\n'); // LF CR LF
                    }
                }
            }
            t
        }
        "utf8trunc" => {
            // legal CRLF text in which one multi-octet character lost its last octet, followed by more text
            let mut t = gen_utf8_crlf(&mut p, len);
            let starts: Vec<usize> = (0..t.len()).filter(|i| t[*i] >= 0xC0).collect();
            if starts.is_empty() {
                t.extend_from_slice(&[0xE2, 0x82]);
                t.extend_from_slice(b"tail");
            } else {
                let at = *p.pick(&starts);
                let n = if t[at] >= 0xF0 { 4 } else if t[at] >= 0xE0 { 3 } else { 2 };
                if at + n <= t.len() {
                    t.remove(at + n - 1);
                }
                if at + n - 1 >= t.len() {
                    t.extend_from_slice(b"tail");
                }
            }
            t
        }
        "crlfmix" => {
            let alphabet = [b'\r', b'\n', b'x', b'\r', b'\n', b' ', b'\t', b'-', b'a'];
            (0..len).map(|_| *p.pick(&alphabet)).collect()
        }
        "lowent" => {
            // compressible: long runs and repeats
            let mut out = Vec::with_capacity(len);
            while out.len() < len {
                let b = p.below(7) as u8 + b'a';
                let run = p.range(1, 300);
                for _ in 0..run {
                    if out.len() < len {
                        out.push(b);
                    }
                }
            }
            out
        }
        _ => p.bytes(len),
    }
}

pub fn gen_text(p: &mut Planner, len: usize) -> Vec<u8> {
    let words = ["hello", "world", "-", "- dash", "-----BEGIN", "é€", "tab\t", "sp ", "x"];
    let mut out = Vec::with_capacity(len + 8);
    while out.len() < len {
        out.extend_from_slice(p.pick(&words).as_bytes());
        match p.below(6) {
            0 => out.push(b'\n'),
            1 => out.extend_from_slice(b"\r\n"),
            2 => out.push(b'\r'),
            _ => out.push(b' '),
        }
    }
    out.truncate(len);
    // keep it valid UTF-8: cut back to a char boundary
    while std::str::from_utf8(&out).is_err() {
        out.pop();
    }
    out
}

/// valid UTF-8 whose every LF is preceded by CR (what DataMode::Utf8 accepts)
pub fn gen_utf8_crlf(p: &mut Planner, len: usize) -> Vec<u8> {
    let atoms: [&str; 8] = ["a", "bc", "é", "€", "😀", " ", "\r\n", "\r\n"];
    let mut out = Vec::with_capacity(len + 4);
    loop {
        let a = p.pick(&atoms).as_bytes();
        if out.len() + a.len() > len {
            break;
        }
        out.extend_from_slice(a);
    }
    while out.len() < len {
        out.push(b'z');
    }
    out
}

/// transport rewrite LF -> CRLF: only a LF that is not already preceded by CR is touched
pub fn lf_to_crlf(s: &str) -> String {
    let mut out = String::with_capacity(s.len() + 16);
    let mut prev = '\0';
    for c in s.chars() {
        if c == '\n' && prev != '\r' {
            out.push('\r');
        }
        out.push(c);
        prev = c;
    }
    out
}
