//! Key pool: generated at start-up with *real* rpgp key generation from a fixed RNG key and a
//! fixed simulated clock, so every run of the simulator sees the same keys.

use std::sync::OnceLock;

use pgp::{
    composed::{EncryptionCaps, KeyType, SecretKeyParamsBuilder, SignedPublicKey, SignedSecretKey, SubkeyParamsBuilder},
    crypto::ecc_curve::ECCCurve,
    types::{KeyVersion, Timestamp},
};

use crate::rng::SimRng;

#[derive(Debug)]
pub struct PoolKey {
    pub name: &'static str,
    pub secret: SignedSecretKey,
    pub public: SignedPublicKey,
    /// password protecting the secret material ("" = unlocked)
    pub password: &'static str,
    pub v6: bool,
    pub cheap: bool,
}

pub const KEY_PW: &str = "key-pw";

struct Spec {
    name: &'static str,
    v6: bool,
    primary: KeyType,
    sub: KeyType,
    locked: bool,
    cheap: bool,
}

fn specs() -> Vec<Spec> {
    use KeyType::*;
    vec![
        Spec { name: "ed25519-v4", v6: false, primary: Ed25519, sub: X25519, locked: false, cheap: true },
        Spec { name: "ed25519-v6", v6: true, primary: Ed25519, sub: X25519, locked: false, cheap: true },
        Spec { name: "edlegacy-v4", v6: false, primary: Ed25519Legacy, sub: ECDH(ECCCurve::Curve25519Legacy), locked: false, cheap: true },
        Spec { name: "ed448-v6", v6: true, primary: Ed448, sub: X448, locked: false, cheap: true },
        Spec { name: "p256-v4", v6: false, primary: ECDSA(ECCCurve::P256), sub: ECDH(ECCCurve::P256), locked: false, cheap: true },
        Spec { name: "p384-v6", v6: true, primary: ECDSA(ECCCurve::P384), sub: ECDH(ECCCurve::P384), locked: false, cheap: false },
        Spec { name: "p521-v4", v6: false, primary: ECDSA(ECCCurve::P521), sub: ECDH(ECCCurve::P521), locked: false, cheap: false },
        Spec { name: "k256-v4", v6: false, primary: ECDSA(ECCCurve::Secp256k1), sub: X25519, locked: false, cheap: true },
        Spec { name: "rsa-v4", v6: false, primary: Rsa(2048), sub: Rsa(2048), locked: false, cheap: false },
        Spec { name: "dsa-v4", v6: false, primary: Dsa(pgp::composed::DsaKeySize::B1024), sub: ECDH(ECCCurve::P256), locked: false, cheap: false },
        Spec { name: "ed25519-v4-locked", v6: false, primary: Ed25519, sub: X25519, locked: true, cheap: true },
        Spec { name: "ed25519-v6-locked", v6: true, primary: Ed25519, sub: X25519, locked: true, cheap: true },
        // outsiders: same shapes, different material
        Spec { name: "outsider-v4", v6: false, primary: Ed25519, sub: X25519, locked: false, cheap: true },
        Spec { name: "outsider-v6", v6: true, primary: Ed25519, sub: X25519, locked: false, cheap: true },
        // certificates that carry user attributes (an image and an unknown subpacket type)
        Spec { name: "attr-v4", v6: false, primary: Ed25519, sub: X25519, locked: false, cheap: true },
        Spec { name: "attr-v6", v6: true, primary: Ed25519, sub: X25519, locked: false, cheap: true },
        // protection state differs between the primary key and the encryption subkey (each secret key
        // packet is protected on its own)
        Spec { name: "sublocked-v4", v6: false, primary: Ed25519, sub: X25519, locked: false, cheap: true },
        Spec { name: "primlocked-v6", v6: true, primary: Ed25519, sub: X25519, locked: false, cheap: true },
        // several subkeys, the encryption subkeys are not the first ones: [signing, encryption, encryption]
        Spec { name: "multisub-v4", v6: false, primary: Ed25519, sub: ECDH(ECCCurve::Curve25519Legacy), locked: false, cheap: true },
        Spec { name: "multisub-v6", v6: true, primary: Ed25519, sub: X25519, locked: false, cheap: true },
        Spec { name: "outsider-p256", v6: false, primary: ECDSA(ECCCurve::P256), sub: ECDH(ECCCurve::P256), locked: false, cheap: true },
    ]
}

fn gen(spec: &Spec) -> PoolKey {
    pgp::types::verif_clock::set(Some((1_700_000_000, 0)));
    let mut rng = SimRng::new(0x706f6f6c, spec.name, false);
    let version = if spec.v6 { KeyVersion::V6 } else { KeyVersion::V4 };
    let lock_primary = spec.locked || spec.name.starts_with("primlocked");
    let lock_sub = spec.locked || spec.name.starts_with("sublocked");
    let pw_primary = if lock_primary { Some(KEY_PW.to_string()) } else { None };
    let pw_sub = if lock_sub { Some(KEY_PW.to_string()) } else { None };
    // cheap S2K for the locked pool keys (the default Argon2 64 MiB / 65 MB iterated hashing
    // would dominate every run that signs or decrypts with them); C08 covers the S2K space.
    let cheap_s2k = |rng: &mut SimRng| -> pgp::types::S2kParams {
        use rand::RngCore;
        if spec.v6 {
            let mut nonce = vec![0u8; 15];
            rng.fill_bytes(&mut nonce);
            let mut salt = [0u8; 16];
            rng.fill_bytes(&mut salt);
            pgp::types::S2kParams::Aead {
                sym_alg: pgp::crypto::sym::SymmetricKeyAlgorithm::AES128,
                aead_mode: pgp::crypto::aead::AeadAlgorithm::Ocb,
                s2k: pgp::types::StringToKey::Argon2 { salt, t: 1, p: 1, m_enc: 3 },
                nonce: nonce.into(),
            }
        } else {
            let mut iv = vec![0u8; 16];
            rng.fill_bytes(&mut iv);
            let mut salt = [0u8; 8];
            rng.fill_bytes(&mut salt);
            pgp::types::S2kParams::Cfb {
                sym_alg: pgp::crypto::sym::SymmetricKeyAlgorithm::AES128,
                s2k: pgp::types::StringToKey::IteratedAndSalted { hash_alg: pgp::crypto::hash::HashAlgorithm::Sha256, salt, count: 0 },
                iv: iv.into(),
            }
        }
    };
    let s2k_primary = if lock_primary { Some(cheap_s2k(&mut rng)) } else { None };
    let s2k_sub = if lock_sub { Some(cheap_s2k(&mut rng)) } else { None };
    let multisub = spec.name.starts_with("multisub");
    let mut b = SecretKeyParamsBuilder::default();
    if multisub {
        b.subkey(
            SubkeyParamsBuilder::default()
                .version(version)
                .key_type(KeyType::Ed25519)
                .can_sign(true)
                .created_at(Timestamp::from_secs(1_600_000_000))
                .build()
                .expect("subkey params"),
        );
    }
    b.version(version)
        .key_type(spec.primary.clone())
        .can_certify(true)
        .can_sign(true)
        .created_at(Timestamp::from_secs(1_600_000_000))
        .primary_user_id(format!("{} <{}@sim.example>", spec.name, spec.name))
        .passphrase(pw_primary)
        .user_attributes(if spec.name.starts_with("attr") {
            let img: Vec<u8> = (0..200u32).map(|i| (i * 7 + 1) as u8).collect();
            vec![pgp::packet::UserAttribute::new_image(img.into()).expect("image attribute")]
        } else {
            vec![]
        })
        .s2k(s2k_primary)
        .subkey(
            SubkeyParamsBuilder::default()
                .version(version)
                .key_type(spec.sub.clone())
                .can_encrypt(EncryptionCaps::All)
                .created_at(Timestamp::from_secs(1_600_000_000))
                .passphrase(pw_sub)
                .s2k(s2k_sub)
                .build()
                .expect("subkey params"),
        );
    if multisub {
        b.subkey(
            SubkeyParamsBuilder::default()
                .version(version)
                .key_type(if spec.v6 { KeyType::X448 } else { KeyType::X25519 })
                .can_encrypt(EncryptionCaps::All)
                .created_at(Timestamp::from_secs(1_600_000_000))
                .build()
                .expect("subkey params"),
        );
    }
    let secret = b.build().expect("key params").generate(&mut rng).expect("key generation for the pool");
    let public = secret.to_public_key();
    PoolKey { name: spec.name, secret, public, password: if lock_primary || lock_sub { KEY_PW } else { "" }, v6: spec.v6, cheap: spec.cheap }
}

static POOL: OnceLock<Vec<PoolKey>> = OnceLock::new();

pub fn pool() -> &'static [PoolKey] {
    POOL.get_or_init(|| {
        let specs = specs();
        let mut out: Vec<Option<PoolKey>> = (0..specs.len()).map(|_| None).collect();
        std::thread::scope(|s| {
            let hs: Vec<_> = specs.iter().map(|sp| s.spawn(move || gen(sp))).collect();
            for (i, h) in hs.into_iter().enumerate() {
                out[i] = Some(h.join().expect("key pool generation panicked"));
            }
        });
        out.into_iter().map(|k| k.unwrap()).collect()
    })
}

pub fn get(name: &str) -> &'static PoolKey {
    pool().iter().find(|k| k.name == name).unwrap_or_else(|| panic!("no pool key {name}"))
}

pub fn signer_names(cheap_only: bool) -> Vec<&'static str> {
    pool()
        .iter()
        .filter(|k| !k.name.starts_with("outsider") && !k.name.starts_with("attr") && (!cheap_only || k.cheap))
        .map(|k| k.name)
        .collect()
}
