//! Simulator-owned I/O seams: source (`SimReader`), sink (`SimWriter`), consumer drivers.
//!
//! Everything here is driven by an *explicit* plan (JSON): the seams never draw from a PRNG
//! and never read a clock, so one plan is one exactly repeatable execution.

use std::{
    io::{self, BufRead, Read, Write},
    sync::{Arc, Mutex},
};

use serde_json::{json, Value};

use crate::util::Fnv;

/// How many bytes each call serves.  `List` cycles.
#[derive(Clone, Debug)]
pub enum Sched {
    Full,
    Fixed(usize),
    List(Vec<usize>),
}

impl Sched {
    pub fn from_json(v: &Value) -> Sched {
        match v.get("k").and_then(|k| k.as_str()) {
            Some("fixed") => Sched::Fixed(v["n"].as_u64().unwrap_or(1).max(1) as usize),
            Some("list") => {
                let l: Vec<usize> = v["v"]
                    .as_array()
                    .map(|a| a.iter().map(|x| x.as_u64().unwrap_or(1).max(1) as usize).collect())
                    .unwrap_or_default();
                if l.is_empty() {
                    Sched::Full
                } else {
                    Sched::List(l)
                }
            }
            _ => Sched::Full,
        }
    }
    pub fn to_json(&self) -> Value {
        match self {
            Sched::Full => json!({"k":"full"}),
            Sched::Fixed(n) => json!({"k":"fixed","n":n}),
            Sched::List(v) => json!({"k":"list","v":v}),
        }
    }
    #[inline]
    pub fn size(&self, call: usize) -> usize {
        match self {
            Sched::Full => usize::MAX,
            Sched::Fixed(n) => *n,
            Sched::List(v) => v[call % v.len()],
        }
    }
    pub fn label(&self) -> &'static str {
        match self {
            Sched::Full => "S-full",
            Sched::Fixed(1) => "S-1",
            Sched::Fixed(_) => "S-k",
            Sched::List(_) => "S-list",
        }
    }
}

pub fn kind_from_str(s: &str) -> io::ErrorKind {
    use io::ErrorKind::*;
    match s {
        "interrupted" => Interrupted,
        "broken_pipe" => BrokenPipe,
        "unexpected_eof" => UnexpectedEof,
        "would_block" => WouldBlock,
        "timed_out" => TimedOut,
        "storage_full" => StorageFull,
        "write_zero" => WriteZero,
        "invalid_data" => InvalidData,
        _ => Other,
    }
}

/// One injected fault on a seam.
#[derive(Clone, Debug)]
pub struct Fault {
    /// call index (0-based, counted per operation class: read / write / flush) at which it fires
    pub at_call: Option<usize>,
    /// or: fires on the call that would deliver/accept the byte at this offset
    pub at_byte: Option<usize>,
    /// "read" | "write" | "flush"
    pub op: String,
    /// error kind name, or "zero" (Ok(0) from a writer) or "eof" (early EOF from a reader)
    pub kind: String,
    /// stays failing on every later call of the same op
    pub persist: bool,
}

impl Fault {
    pub fn from_json(v: &Value) -> Fault {
        Fault {
            at_call: v.get("at_call").and_then(|x| x.as_u64()).map(|x| x as usize),
            at_byte: v.get("at_byte").and_then(|x| x.as_u64()).map(|x| x as usize),
            op: v.get("op").and_then(|x| x.as_str()).unwrap_or("read").to_string(),
            kind: v.get("kind").and_then(|x| x.as_str()).unwrap_or("other").to_string(),
            persist: v.get("persist").and_then(|x| x.as_bool()).unwrap_or(false),
        }
    }
    pub fn to_json(&self) -> Value {
        let mut m = serde_json::Map::new();
        if let Some(c) = self.at_call {
            m.insert("at_call".into(), json!(c));
        }
        if let Some(b) = self.at_byte {
            m.insert("at_byte".into(), json!(b));
        }
        m.insert("op".into(), json!(self.op));
        m.insert("kind".into(), json!(self.kind));
        if self.persist {
            m.insert("persist".into(), json!(true));
        }
        Value::Object(m)
    }
    pub fn is_transient(&self) -> bool {
        self.kind == "interrupted"
    }
    pub fn label(&self) -> String {
        let k = match self.kind.as_str() {
            "interrupted" => "F-eintr",
            "zero" => "F-zero",
            "eof" => "F-eof",
            _ => "F-err",
        };
        format!("{}:{}{}", k, self.op, if self.persist { ":persist" } else { "" })
    }
}

pub fn faults_from_json(v: Option<&Value>) -> Vec<Fault> {
    v.and_then(|a| a.as_array())
        .map(|a| a.iter().map(Fault::from_json).collect())
        .unwrap_or_default()
}

/// What a seam saw.  Shared through `Arc<Mutex<..>>` because the seam object is moved into rpgp.
#[derive(Debug, Default, Clone)]
pub struct SeamLog {
    pub calls: u64,
    pub flush_calls: u64,
    pub bytes: u64,
    /// (op, call index, kind) of every fault that actually fired
    pub fired: Vec<(String, usize, String)>,
    /// a non-transient error was returned to the caller at least once
    pub hard_error: bool,
    /// a transient error was returned
    pub transient_error: bool,
    pub eof_seen: bool,
    pub budget_exceeded: bool,
    pub hash: Fnv,
}

pub type SharedLog = Arc<Mutex<SeamLog>>;

pub fn snap(l: &SharedLog) -> SeamLog {
    let g = l.lock().unwrap();
    let c = g.clone();
    drop(g);
    c
}

pub fn new_log() -> SharedLog {
    Arc::new(Mutex::new(SeamLog::default()))
}

pub const LIVELOCK_MARK: &str = "SIM-LIVELOCK: seam step budget exceeded twice over";

/// Source seam.
pub struct SimReader {
    data: Arc<Vec<u8>>,
    pos: usize,
    sched: Sched,
    call: usize,
    faults: Vec<Fault>,
    fired: Vec<bool>,
    budget: u64,
    pub log: SharedLog,
}

impl std::fmt::Debug for SimReader {
    fn fmt(&self, f: &mut std::fmt::Formatter<'_>) -> std::fmt::Result {
        write!(f, "SimReader(len={}, pos={})", self.data.len(), self.pos)
    }
}

impl SimReader {
    pub fn new(data: Arc<Vec<u8>>, sched: Sched, faults: Vec<Fault>) -> (Self, SharedLog) {
        let log = new_log();
        let budget = 4 * data.len() as u64 + 4096;
        let n = faults.len();
        (
            SimReader {
                data,
                pos: 0,
                sched,
                call: 0,
                faults: faults.into_iter().filter(|f| f.op == "read").collect(),
                fired: vec![false; n],
                budget,
                log: log.clone(),
            },
            log,
        )
    }
    pub fn plain(data: &[u8]) -> Self {
        Self::new(Arc::new(data.to_vec()), Sched::Full, vec![]).0
    }
}

impl Read for SimReader {
    fn read(&mut self, buf: &mut [u8]) -> io::Result<usize> {
        let call = self.call;
        self.call += 1;
        let mut log = self.log.lock().unwrap();
        log.calls += 1;
        crate::alloc::on_seam(self.pos as u64);
        if log.calls > self.budget {
            log.budget_exceeded = true;
            if log.calls > 2 * self.budget + 1024 {
                drop(log);
                panic!("{}", LIVELOCK_MARK);
            }
            log.hard_error = true;
            return Err(io::Error::other("sim: step budget exceeded"));
        }
        let remaining = self.data.len() - self.pos;
        let n = buf.len().min(remaining).min(self.sched.size(call));
        for (i, f) in self.faults.iter().enumerate() {
            let hit = if self.fired[i] {
                f.persist
            } else {
                match (f.at_call, f.at_byte) {
                    (Some(c), _) => c == call,
                    (None, Some(b)) => self.pos <= b && b < self.pos + n.max(1) && !buf.is_empty(),
                    _ => false,
                }
            };
            if hit {
                if !self.fired[i] {
                    self.fired[i] = true;
                    log.fired.push(("read".into(), call, f.kind.clone()));
                }
                log.hash.u64(0xE000 + call as u64);
                if f.kind == "eof" {
                    log.eof_seen = true;
                    return Ok(0);
                }
                let kind = kind_from_str(&f.kind);
                if kind == io::ErrorKind::Interrupted {
                    log.transient_error = true;
                } else {
                    log.hard_error = true;
                }
                return Err(io::Error::new(kind, "sim: injected source fault"));
            }
        }
        buf[..n].copy_from_slice(&self.data[self.pos..self.pos + n]);
        self.pos += n;
        log.bytes += n as u64;
        log.hash.u64(((buf.len().min(1 << 20) as u64) << 24) ^ n as u64);
        if n == 0 && !buf.is_empty() {
            log.eof_seen = true;
        }
        Ok(n)
    }
}

/// `BufRead` over a `SimReader` with a chosen capacity (S-cap).
pub fn sim_bufread(
    data: Arc<Vec<u8>>,
    sched: Sched,
    cap: usize,
    faults: Vec<Fault>,
) -> (io::BufReader<SimReader>, SharedLog) {
    let (r, log) = SimReader::new(data, sched, faults);
    (io::BufReader::with_capacity(cap.max(1), r), log)
}

/// Sink seam.
pub struct SimWriter {
    pub out: Arc<Mutex<Vec<u8>>>,
    sched: Sched,
    call: usize,
    flush_call: usize,
    faults: Vec<Fault>,
    fired: Vec<bool>,
    budget: u64,
    discard: bool,
    pub log: SharedLog,
}

impl SimWriter {
    pub fn new(sched: Sched, faults: Vec<Fault>, budget: u64) -> (Self, Arc<Mutex<Vec<u8>>>, SharedLog) {
        let log = new_log();
        let out = Arc::new(Mutex::new(Vec::new()));
        let n = faults.len();
        (
            SimWriter {
                out: out.clone(),
                sched,
                call: 0,
                flush_call: 0,
                faults,
                fired: vec![false; n],
                budget,
                discard: false,
                log: log.clone(),
            },
            out,
            log,
        )
    }
    pub fn discarding(mut self) -> Self {
        self.discard = true;
        self
    }
}

impl Write for SimWriter {
    fn write(&mut self, buf: &[u8]) -> io::Result<usize> {
        let call = self.call;
        self.call += 1;
        let mut log = self.log.lock().unwrap();
        log.calls += 1;
        if log.calls > self.budget {
            log.budget_exceeded = true;
            if log.calls > 2 * self.budget + 1024 {
                drop(log);
                panic!("{}", LIVELOCK_MARK);
            }
            log.hard_error = true;
            return Err(io::Error::other("sim: step budget exceeded"));
        }
        let pos = log.bytes as usize;
        let n = buf.len().min(self.sched.size(call));
        for (i, f) in self.faults.iter().enumerate() {
            if f.op != "write" {
                continue;
            }
            let hit = if self.fired[i] {
                f.persist
            } else {
                match (f.at_call, f.at_byte) {
                    (Some(c), _) => c == call,
                    (None, Some(b)) => pos <= b && b < pos + n.max(1) && !buf.is_empty(),
                    _ => false,
                }
            };
            if hit {
                if !self.fired[i] {
                    self.fired[i] = true;
                    log.fired.push(("write".into(), call, f.kind.clone()));
                }
                log.hash.u64(0xE100 + call as u64);
                if f.kind == "zero" {
                    return Ok(0);
                }
                let kind = kind_from_str(&f.kind);
                if kind == io::ErrorKind::Interrupted {
                    log.transient_error = true;
                } else {
                    log.hard_error = true;
                }
                return Err(io::Error::new(kind, "sim: injected sink fault"));
            }
        }
        if !self.discard {
            self.out.lock().unwrap().extend_from_slice(&buf[..n]);
        }
        log.bytes += n as u64;
        log.hash.u64(((buf.len().min(1 << 20) as u64) << 24) ^ n as u64);
        Ok(n)
    }

    fn flush(&mut self) -> io::Result<()> {
        let call = self.flush_call;
        self.flush_call += 1;
        let mut log = self.log.lock().unwrap();
        log.flush_calls += 1;
        for (i, f) in self.faults.iter().enumerate() {
            if f.op != "flush" {
                continue;
            }
            let hit = if self.fired[i] { f.persist } else { f.at_call == Some(call) };
            if hit {
                if !self.fired[i] {
                    self.fired[i] = true;
                    log.fired.push(("flush".into(), call, f.kind.clone()));
                }
                let kind = kind_from_str(&f.kind);
                if kind == io::ErrorKind::Interrupted {
                    log.transient_error = true;
                } else {
                    log.hard_error = true;
                }
                return Err(io::Error::new(kind, "sim: injected flush fault"));
            }
        }
        Ok(())
    }
}

/// How the simulator (as the caller) drains an rpgp reader.
#[derive(Clone, Debug)]
pub enum Consumer {
    /// the type's own `read_to_end`
    ReadToEnd,
    /// `read(buf)` loop, buffer sizes cycle; retries `Interrupted` like std does
    ReadLoop(Vec<usize>),
    /// `read_to_string` (std retries `Interrupted`); falls back to lossless check by caller
    ReadToString,
    /// `io::copy` into a non-Vec writer (std's generic path: stack buffer + retry)
    Copy,
    /// `fill_buf` / `consume(m)` with partial consumes (sizes cycle, capped by available)
    FillConsume(Vec<usize>),
    /// `bytes()` iterator
    Bytes,
    /// `read_exact` of fixed pieces until it fails with UnexpectedEof; then read rest byte-wise
    ReadExact(usize),
}

impl Consumer {
    pub fn from_json(v: &Value) -> Consumer {
        let list = |v: &Value| -> Vec<usize> {
            let l: Vec<usize> = v["v"]
                .as_array()
                .map(|a| a.iter().map(|x| x.as_u64().unwrap_or(1) as usize).collect())
                .unwrap_or_default();
            // (a 0 is a zero-length request; a script needs at least one real request to make progress)
            if l.iter().all(|x| *x == 0) {
                vec![4096]
            } else {
                l
            }
        };
        match v.get("k").and_then(|k| k.as_str()) {
            Some("read_loop") => Consumer::ReadLoop(list(v)),
            Some("read_to_string") => Consumer::ReadToString,
            Some("copy") => Consumer::Copy,
            Some("fill_consume") => Consumer::FillConsume(list(v)),
            Some("bytes") => Consumer::Bytes,
            Some("read_exact") => Consumer::ReadExact(v["n"].as_u64().unwrap_or(7).max(1) as usize),
            _ => Consumer::ReadToEnd,
        }
    }
    pub fn to_json(&self) -> Value {
        match self {
            Consumer::ReadToEnd => json!({"k":"read_to_end"}),
            Consumer::ReadLoop(v) => json!({"k":"read_loop","v":v}),
            Consumer::ReadToString => json!({"k":"read_to_string"}),
            Consumer::Copy => json!({"k":"copy"}),
            Consumer::FillConsume(v) => json!({"k":"fill_consume","v":v}),
            Consumer::Bytes => json!({"k":"bytes"}),
            Consumer::ReadExact(n) => json!({"k":"read_exact","n":n}),
        }
    }
    pub fn label(&self) -> &'static str {
        match self {
            Consumer::ReadToEnd => "read_to_end",
            Consumer::ReadLoop(_) => "read_loop",
            Consumer::ReadToString => "read_to_string",
            Consumer::Copy => "io_copy",
            Consumer::FillConsume(_) => "fill_consume",
            Consumer::Bytes => "bytes",
            Consumer::ReadExact(_) => "read_exact",
        }
    }
    /// does this consumer retry `Interrupted` (as std does)?
    pub fn retries(&self) -> bool {
        true
    }
}

/// A writer that is not a `Vec<u8>`, so `io::copy` takes its generic path.
struct Collect(Vec<u8>, usize);
impl Write for Collect {
    fn write(&mut self, b: &[u8]) -> io::Result<usize> {
        if self.0.len() + b.len() > self.1 {
            return Err(io::Error::other("sim: consumer got more than the bound (runaway reader)"));
        }
        self.0.extend_from_slice(b);
        Ok(b.len())
    }
    fn flush(&mut self) -> io::Result<()> {
        Ok(())
    }
}

thread_local! {
    /// consumer behaviour "calls again after an error": after a drain ended in an error the reader is
    /// called a few more times (results ignored; a panic is what the caller's guard is looking for)
    static POKE_AFTER_ERROR: std::cell::Cell<bool> = const { std::cell::Cell::new(false) };
}

pub fn set_poke_after_error(on: bool) {
    POKE_AFTER_ERROR.with(|p| p.set(on));
}

thread_local! {
    /// consumer behaviour "reads on after an error": after an error (not the harness' own bound) the
    /// consumer goes on with its script, up to three errors; what it collects is returned as one result
    static RESUME_AFTER_ERROR: std::cell::Cell<bool> = const { std::cell::Cell::new(false) };
}

pub fn set_resume_after_error(on: bool) {
    RESUME_AFTER_ERROR.with(|p| p.set(on));
}

fn resuming() -> bool {
    RESUME_AFTER_ERROR.with(|p| p.get())
}

fn is_harness_bound(e: &io::Error) -> bool {
    let s = e.to_string();
    s.starts_with("sim: consumer got more than the bound") || s.starts_with("sim: endless Interrupted")
}

fn poke<R: Read>(r: &mut R) {
    if POKE_AFTER_ERROR.with(|p| p.get()) {
        let mut buf = [0u8; 96];
        for _ in 0..3 {
            let _ = r.read(&mut buf);
        }
        let mut rest = Vec::new();
        let _ = r.by_ref().take(1 << 16).read_to_end(&mut rest);
    }
}

/// Drain `r` to its end.  Returns everything released before the end/err, and how it ended.
/// `max` bounds the amount accepted (guards against readers that never end).
pub fn drain<R: BufRead>(r: &mut R, c: &Consumer, max: usize) -> (Vec<u8>, io::Result<()>) {
    let (mut out, mut end) = drain_inner(r, c, max);
    if resuming() {
        for _ in 0..3 {
            match &end {
                Err(e) if !is_harness_bound(e) => {
                    let (more, e2) = drain_inner(r, c, max.saturating_sub(out.len()));
                    out.extend_from_slice(&more);
                    end = e2;
                }
                _ => break,
            }
        }
        return (out, end);
    }
    if end.is_err() {
        if POKE_AFTER_ERROR.with(|p| p.get()) {
            let _ = r.fill_buf().map(|b| b.len());
        }
        poke(r);
    }
    (out, end)
}

/// Same for a plain `Read` (FillConsume degrades to a read loop with the same sizes).
pub fn drain_read<R: Read>(r: &mut R, c: &Consumer, max: usize) -> (Vec<u8>, io::Result<()>) {
    let (mut out, mut end) = drain_read_inner(r, c, max);
    if resuming() {
        for _ in 0..3 {
            match &end {
                Err(e) if !is_harness_bound(e) => {
                    let (more, e2) = drain_read_inner(r, c, max.saturating_sub(out.len()));
                    out.extend_from_slice(&more);
                    end = e2;
                }
                _ => break,
            }
        }
        return (out, end);
    }
    if end.is_err() {
        poke(r);
    }
    (out, end)
}

fn drain_inner<R: BufRead>(r: &mut R, c: &Consumer, max: usize) -> (Vec<u8>, io::Result<()>) {
    if let Consumer::FillConsume(sizes) = c {
        let mut out = Vec::new();
        let too_much = || io::Error::other("sim: consumer got more than the bound (runaway reader)");
        let mut i = 0usize;
        let mut spins = 0u64;
        loop {
            let want = sizes[i % sizes.len()];
            i += 1;
            let k = match r.fill_buf() {
                Ok([]) => return (out, Ok(())),
                Ok(b) => {
                    let k = want.min(b.len());
                    out.extend_from_slice(&b[..k]);
                    k
                }
                Err(e) if e.kind() == io::ErrorKind::Interrupted => {
                    spins += 1;
                    if spins > 10_000 {
                        return (out, Err(io::Error::other("sim: endless Interrupted")));
                    }
                    continue;
                }
                Err(e) => return (out, Err(e)),
            };
            r.consume(k);
            if out.len() > max {
                return (out, Err(too_much()));
            }
        }
    }
    drain_read_inner(r, c, max)
}

fn drain_read_inner<R: Read>(r: &mut R, c: &Consumer, max: usize) -> (Vec<u8>, io::Result<()>) {
    let mut out = Vec::new();
    let too_much = || io::Error::other("sim: consumer got more than the bound (runaway reader)");
    match c {
        Consumer::ReadToEnd => {
            // the type's own read_to_end (rpgp overrides it on several readers); unbounded by
            // nature, so hostile-input checks use the bounded consumers instead
            let res = r.read_to_end(&mut out);
            (out, res.map(|_| ()))
        }
        Consumer::ReadToString => {
            // read_to_string on invalid UTF-8 fails by design; callers only use it on text
            let mut s = String::new();
            let res = r.read_to_string(&mut s);
            out = s.into_bytes();
            (out, res.map(|_| ()))
        }
        Consumer::Copy => {
            let mut w = Collect(Vec::new(), max);
            let res = io::copy(r, &mut w);
            (w.0, res.map(|_| ()))
        }
        Consumer::ReadLoop(sizes) | Consumer::FillConsume(sizes) => {
            let mut i = 0usize;
            let mut buf = vec![0u8; *sizes.iter().max().unwrap_or(&1)];
            let mut spins = 0u64;
            loop {
                let n = sizes[i % sizes.len()];
                i += 1;
                if n == 0 {
                    // a zero-length request: whatever it returns, it is not the end of the stream
                    match r.read(&mut buf[..0]) {
                        Ok(_) => continue,
                        Err(e) if e.kind() == io::ErrorKind::Interrupted => continue,
                        Err(e) => return (out, Err(e)),
                    }
                }
                match r.read(&mut buf[..n]) {
                    Ok(0) => return (out, Ok(())),
                    Ok(k) => {
                        out.extend_from_slice(&buf[..k]);
                        if out.len() > max {
                            return (out, Err(too_much()));
                        }
                    }
                    Err(e) if e.kind() == io::ErrorKind::Interrupted => {
                        spins += 1;
                        if spins > 10_000 {
                            return (out, Err(io::Error::other("sim: endless Interrupted")));
                        }
                    }
                    Err(e) => return (out, Err(e)),
                }
            }
        }
        Consumer::Bytes => {
            for b in r.bytes() {
                match b {
                    Ok(b) => {
                        out.push(b);
                        if out.len() > max {
                            return (out, Err(too_much()));
                        }
                    }
                    Err(e) => return (out, Err(e)),
                }
            }
            (out, Ok(()))
        }
        Consumer::ReadExact(n) => {
            let mut buf = vec![0u8; *n];
            loop {
                // read_exact loses the partial tail on EOF, so do the std loop by hand
                let mut got = 0;
                while got < *n {
                    match r.read(&mut buf[got..]) {
                        Ok(0) => {
                            out.extend_from_slice(&buf[..got]);
                            return (out, Ok(()));
                        }
                        Ok(k) => got += k,
                        Err(e) if e.kind() == io::ErrorKind::Interrupted => {}
                        Err(e) => {
                            out.extend_from_slice(&buf[..got]);
                            return (out, Err(e));
                        }
                    }
                }
                out.extend_from_slice(&buf);
                if out.len() > max {
                    return (out, Err(too_much()));
                }
            }
        }
    }
}
