//! Batch runner: plans -> workers -> records merged in plan order -> violations triaged,
//! minimised, replay-verified and written; evidence written.

use std::{
    collections::{BTreeMap, HashSet},
    panic::{catch_unwind, AssertUnwindSafe},
    sync::{
        atomic::{AtomicUsize, Ordering},
        Mutex,
    },
    time::Instant,
};

use serde_json::{json, Value};

#[derive(Clone, Debug)]
pub struct Violation {
    /// violation class, e.g. "panic", "ok-after-hard-error", "output-differs"
    pub class: String,
    /// where: panic location / call site / API name — stable across payload changes
    pub site: String,
    pub detail: String,
    /// explicit plan that reproduces exactly this violation (single case)
    pub plan: Value,
}

#[derive(Default)]
pub struct Rec {
    pub evals: u64,
    pub hashes: HashSet<u64>,
    pub counters: BTreeMap<String, u64>,
    pub seam_calls: u64,
    pub samples: Vec<Value>,
    pub violations: Vec<Violation>,
}

impl Rec {
    pub fn eval(&mut self, hash: u64, nontrivial: bool) {
        self.evals += 1;
        if nontrivial {
            self.hashes.insert(hash);
        }
    }
    pub fn count(&mut self, key: &str) {
        *self.counters.entry(key.to_string()).or_insert(0) += 1;
    }
    pub fn count_n(&mut self, key: &str, n: u64) {
        *self.counters.entry(key.to_string()).or_insert(0) += n;
    }
    pub fn sample(&mut self, v: Value) {
        if self.samples.len() < 2 {
            self.samples.push(v);
        }
    }
    pub fn violation(&mut self, class: &str, site: &str, detail: String, plan: Value) {
        if self.violations.len() < 8 {
            self.violations.push(Violation {
                class: class.to_string(),
                site: site.to_string(),
                detail,
                plan,
            });
        }
    }
    fn merge(&mut self, o: Rec) {
        self.evals += o.evals;
        self.hashes.extend(o.hashes);
        for (k, v) in o.counters {
            *self.counters.entry(k).or_insert(0) += v;
        }
        self.seam_calls += o.seam_calls;
        for s in o.samples {
            if self.samples.len() < 5 {
                self.samples.push(s);
            }
        }
        self.violations.extend(o.violations);
    }
}

#[derive(Clone, Copy, PartialEq, Eq, Debug)]
pub enum Tier {
    Quick,
    Thorough,
}

pub struct GenCtx {
    /// seed of this round (round 0: the run's seed; later rounds: derived from it)
    pub seed: u64,
    pub tier: Tier,
    /// large (thorough) batches are generated and executed in rounds so that the plans of one
    /// round fit in memory; every round has its own derived seed
    pub round: u64,
    n_called: std::cell::Cell<bool>,
    more: std::cell::Cell<bool>,
}

/// most plans one family generates per round
pub const ROUND_CAP: usize = 200_000;

impl GenCtx {
    pub fn new(seed: u64, tier: Tier, round: u64) -> Self {
        let seed = if round == 0 { seed } else { seed ^ round.wrapping_mul(0x9E37_79B9_7F4A_7C15) };
        GenCtx { seed, tier, round, n_called: std::cell::Cell::new(false), more: std::cell::Cell::new(false) }
    }
    /// n for quick, m for thorough - the share of it that belongs to this round
    pub fn n(&self, quick: usize, thorough: usize) -> usize {
        let scale = std::env::var("VERIF_SCALE").ok().and_then(|s| s.parse::<f64>().ok()).unwrap_or(1.0);
        let v = match self.tier {
            Tier::Quick => quick,
            Tier::Thorough => thorough,
        };
        let total = ((v as f64 * scale) as usize).max(1);
        self.n_called.set(true);
        let start = self.round as usize * ROUND_CAP;
        if start >= total {
            return 0;
        }
        let k = ROUND_CAP.min(total - start);
        if start + k < total {
            self.more.set(true);
        }
        k
    }
    /// parts of a batch that are enumerated rather than drawn belong to the first round only
    pub fn first_round(&self) -> bool {
        self.round == 0
    }
    fn wants_another_round(&self) -> bool {
        self.n_called.get() && self.more.get()
    }
}

pub struct Family {
    pub name: &'static str,
    pub gen: fn(&GenCtx) -> Vec<Value>,
    pub run: fn(&Value, &mut Rec),
}

pub struct Check {
    pub property: &'static str,
    pub level: &'static str,
    pub rule: &'static str,
    pub families: Vec<Family>,
    pub assumptions: Vec<&'static str>,
    pub real: Vec<&'static str>,
    pub stubs: Vec<&'static str>,
}

// ---------------------------------------------------------------- panic capture

thread_local! {
    static LAST_PANIC: std::cell::RefCell<Option<(String, String)>> = const { std::cell::RefCell::new(None) };
    static QUIET: std::cell::Cell<bool> = const { std::cell::Cell::new(false) };
}

pub fn install_panic_hook() {
    let prev = std::panic::take_hook();
    std::panic::set_hook(Box::new(move |info| {
        let msg = if let Some(s) = info.payload().downcast_ref::<&str>() {
            s.to_string()
        } else if let Some(s) = info.payload().downcast_ref::<String>() {
            s.clone()
        } else {
            "<non-string panic>".to_string()
        };
        let loc = info
            .location()
            .map(|l| format!("{}:{}", l.file(), l.line()))
            .unwrap_or_else(|| "<unknown>".into());
        if std::env::var("VERIF_BACKTRACE").is_ok() {
            eprintln!("panic: {msg} at {loc}\n{}", std::backtrace::Backtrace::force_capture());
        }
        let quiet = QUIET.with(|q| q.get());
        LAST_PANIC.with(|p| *p.borrow_mut() = Some((msg, loc)));
        if !quiet {
            prev(info);
        }
    }));
}

#[derive(Debug, Clone)]
pub struct PanicInfo {
    pub msg: String,
    pub loc: String,
}

/// Run `f`, turning a panic into a value.  Panics inside are not printed.
pub fn guard<T>(f: impl FnOnce() -> T) -> Result<T, PanicInfo> {
    let was = QUIET.with(|q| q.replace(true));
    let r = catch_unwind(AssertUnwindSafe(f));
    QUIET.with(|q| q.set(was));
    match r {
        Ok(v) => Ok(v),
        Err(_) => {
            let (msg, loc) = LAST_PANIC
                .with(|p| p.borrow_mut().take())
                .unwrap_or_else(|| ("<unknown>".into(), "<unknown>".into()));
            Err(PanicInfo { msg, loc })
        }
    }
}

/// strip the absolute prefix so that sites are stable: "/repo/src/x.rs:12" -> "src/x.rs:12"
pub fn norm_loc(loc: &str) -> String {
    if let Some(i) = loc.find("/repo/") {
        loc[i + 6..].to_string()
    } else if let Some(i) = loc.find("/registry/src/") {
        let rest = &loc[i + 14..];
        rest.split_once('/').map(|(_, r)| r.to_string()).unwrap_or_else(|| rest.to_string())
    } else {
        loc.to_string()
    }
}

// ---------------------------------------------------------------- executing plans

pub const DEFAULT_CLOCK: u32 = 1_750_000_000;

thread_local! {
    static PLAN_CLOCK: std::cell::Cell<(u32, i64)> = const { std::cell::Cell::new((DEFAULT_CLOCK, 0)) };
}

fn set_clock(plan: &Value) {
    let c = plan.get("clock");
    let now = c.and_then(|c| c.get("now")).and_then(|x| x.as_u64()).unwrap_or(DEFAULT_CLOCK as u64) as u32;
    let step = c.and_then(|c| c.get("step")).and_then(|x| x.as_i64()).unwrap_or(0);
    PLAN_CLOCK.with(|p| p.set((now, step)));
    reset_clock();
}

/// restart the simulated clock at the plan's start value (each operation of a plan starts there)
pub fn reset_clock() {
    pgp::types::verif_clock::set(Some(PLAN_CLOCK.with(|p| p.get())));
}

thread_local! {
    /// family name and plan of the run in progress on this thread, for the allocation trap
    static TRAP_CTX: std::cell::Cell<(*const Family, *const Value)> = const { std::cell::Cell::new((std::ptr::null(), std::ptr::null())) };
}
static TRAP_PROP: Mutex<(String, u64)> = Mutex::new((String::new(), 0));

/// Allocation trap (see alloc::HUGE): a run asked for an absurd single allocation.  The process could
/// only abort, so the violation is reported from here: replay file, VIOLATION line, exit 1.
#[allow(unsafe_code)]
fn huge_alloc_trap(size: usize) {
    let (fam, plan) = TRAP_CTX.with(|c| c.get());
    if fam.is_null() || plan.is_null() {
        return;
    }
    // SAFETY: both point into values that outlive run_plan, which clears the context before returning
    let (fam, plan) = unsafe { (&*fam, &*plan) };
    let bt = std::backtrace::Backtrace::force_capture().to_string();
    let site = bt
        .lines()
        .filter_map(|l| l.trim().strip_prefix("at "))
        .find(|l| l.contains("/repo/src/"))
        .map(|l| norm_loc(l))
        .unwrap_or_else(|| "<unknown>".into());
    let (property, seed) = TRAP_PROP.lock().map(|g| g.clone()).unwrap_or_default();
    let v = Violation {
        class: "allocation-aborts".into(),
        site,
        detail: format!("a single allocation of {size} octets was requested (at or above {} octets the allocator refuses and the process aborts)", crate::alloc::HUGE),
        plan: plan.clone(),
    };
    let path = write_replay(&property, fam.name, seed, &v, None);
    println!("violation class={} site={} :: {}", v.class, v.site, v.detail);
    println!("VIOLATION property={property} replay={path}");
    use std::io::Write;
    let _ = std::io::stdout().flush();
    std::process::exit(1);
}

pub fn arm_alloc_trap(property: &str, seed: u64) {
    *TRAP_PROP.lock().unwrap() = (property.to_string(), seed);
    crate::alloc::set_trap(huge_alloc_trap);
}

pub fn run_plan(fam: &Family, plan: &Value) -> Rec {
    let mut rec = Rec::default();
    set_clock(plan);
    TRAP_CTX.with(|c| c.set((fam as *const Family, plan as *const Value)));
    crate::seams::set_poke_after_error(false);
    crate::seams::set_resume_after_error(false);
    let r = guard(|| (fam.run)(plan, &mut rec));
    TRAP_CTX.with(|c| c.set((std::ptr::null(), std::ptr::null())));
    if let Err(p) = r {
        rec.violation(
            "harness-panic",
            &norm_loc(&p.loc),
            format!("panic escaped the family's own guards: {} at {}", p.msg, p.loc),
            plan.clone(),
        );
    }
    rec
}

/// current plan of each worker, for the hang watchdog: (wall-clock start, family, plan, worker thread, its CPU time at the start)
static CURRENT: Mutex<Vec<Option<(Instant, String, String, u64, f64)>>> = Mutex::new(Vec::new());

/// CPU time consumed so far by thread `tid` (0.0 if it cannot be read)
#[allow(unsafe_code)]
fn thread_cpu_of(tid: u64) -> f64 {
    let mut cid: libc::clockid_t = 0;
    let mut ts = libc::timespec { tv_sec: 0, tv_nsec: 0 };
    // SAFETY: tid was obtained from pthread_self() of a worker that is still running its plan
    unsafe {
        if libc::pthread_getcpuclockid(tid as libc::pthread_t, &mut cid) != 0 {
            return 0.0;
        }
        if libc::clock_gettime(cid, &mut ts) != 0 {
            return 0.0;
        }
    }
    ts.tv_sec as f64 + ts.tv_nsec as f64 * 1e-9
}

#[allow(unsafe_code)]
fn self_tid() -> u64 {
    // SAFETY: no preconditions
    unsafe { libc::pthread_self() as u64 }
}

pub fn run_family(fam: &Family, plans: &[Value], threads: usize) -> Rec {
    let next = AtomicUsize::new(0);
    let results: Mutex<Vec<Option<Rec>>> = Mutex::new((0..plans.len()).map(|_| None).collect());
    {
        let mut c = CURRENT.lock().unwrap();
        c.clear();
        c.resize(threads, None);
    }
    std::thread::scope(|s| {
        for w in 0..threads {
            let next = &next;
            let results = &results;
            std::thread::Builder::new()
                .stack_size(64 << 20)
                .spawn_scoped(s, move || loop {
                    let i = next.fetch_add(1, Ordering::Relaxed);
                    if i >= plans.len() {
                        CURRENT.lock().unwrap()[w] = None;
                        break;
                    }
                    let tid = self_tid();
                    CURRENT.lock().unwrap()[w] =
                        Some((Instant::now(), fam.name.to_string(), plans[i].to_string(), tid, thread_cpu_of(tid)));
                    let rec = run_plan(fam, &plans[i]);
                    results.lock().unwrap()[i] = Some(rec);
                })
                .expect("spawn worker");
        }
    });
    let mut total = Rec::default();
    for r in results.into_inner().unwrap().into_iter().flatten() {
        total.merge(r);
    }
    total
}

/// Watchdog: a plan that has consumed more than `limit_s` seconds of CPU time on its worker thread (wall
/// time would make a loaded machine look like a hang), or that has been sitting for 15 minutes of
/// wall time (blocked without consuming CPU), is reported as a hang.  Runs in a detached thread; on a
/// hang it writes the replay file, prints the VIOLATION line and exits 1.
pub fn start_watchdog(property: &'static str, limit_s: u64) {
    // (VERIF_WATCHDOG_S overrides the limit: used to test the watchdog itself)
    let limit_s = std::env::var("VERIF_WATCHDOG_S").ok().and_then(|s| s.parse().ok()).unwrap_or(limit_s);
    std::thread::spawn(move || loop {
        std::thread::sleep(std::time::Duration::from_millis(1000));
        let c = CURRENT.lock().unwrap();
        for (t0, fam, plan, tid, cpu0) in c.iter().flatten() {
            let cpu = thread_cpu_of(*tid) - *cpu0;
            if cpu > limit_s as f64 || t0.elapsed().as_secs() > 900 {
                let plan: Value = serde_json::from_str(plan).unwrap_or(Value::Null);
                let path = write_replay(property, fam, 0, &Violation {
                    class: "hang".into(),
                    site: "watchdog".into(),
                    detail: format!("plan still running after {:.0} s of CPU time ({} s of wall time)", cpu, t0.elapsed().as_secs()),
                    plan,
                }, None);
                println!("VIOLATION property={property} replay={path}");
                std::process::exit(1);
            }
        }
    });
}

// ---------------------------------------------------------------- replay files

pub fn verif_root() -> std::path::PathBuf {
    std::env::var("VERIF_ROOT").map(Into::into).unwrap_or_else(|_| "/verif".into())
}

pub fn write_replay(property: &str, family: &str, seed: u64, v: &Violation, original: Option<&Value>) -> String {
    let dir = verif_root().join("replays");
    let _ = std::fs::create_dir_all(&dir);
    let h = crate::util::fnv_of(&[v.plan.to_string().as_bytes(), v.class.as_bytes()]);
    let path = dir.join(format!("{property}-{family}-{seed}-{h:016x}.json"));
    let doc = json!({
        "property": property,
        "family": family,
        "seed": seed,
        "class": v.class,
        "site": v.site,
        "detail": v.detail,
        "plan": v.plan,
        "minimised_from": original,
    });
    let _ = std::fs::write(&path, serde_json::to_string_pretty(&doc).unwrap());
    path.to_string_lossy().into_owned()
}

// ---------------------------------------------------------------- minimisation

fn same(v: &Violation, class: &str, site: &str) -> bool {
    v.class == class && v.site == site
}

fn reproduces(fam: &Family, plan: &Value, class: &str, site: &str) -> Option<Violation> {
    let rec = run_plan(fam, plan);
    rec.violations.into_iter().find(|v| same(v, class, site))
}

fn shrink_candidates(plan: &Value) -> Vec<Value> {
    let mut out = Vec::new();
    let Some(obj) = plan.as_object() else { return out };
    for (k, v) in obj {
        let mut push = |nv: Value| {
            let mut m = obj.clone();
            m.insert(k.clone(), nv);
            out.push(Value::Object(m));
        };
        if k == "clock" || k == "only" || k == "family" {
            continue;
        }
        match v {
            Value::Array(a) if k.contains("fault") || k == "signers" || k == "recipients" || k == "passwords" || k == "layers" || k == "headers" => {
                for i in 0..a.len() {
                    let mut b = a.clone();
                    b.remove(i);
                    push(Value::Array(b));
                }
                if k.contains("fault") {
                    for i in 0..a.len() {
                        if a[i].get("kind").and_then(|x| x.as_str()).map(|s| s != "other" && s != "interrupted" && s != "zero" && s != "eof").unwrap_or(false) {
                            let mut b = a.clone();
                            b[i]["kind"] = json!("other");
                            push(Value::Array(b));
                        }
                        for key in ["at_call", "at_byte"] {
                            if let Some(n) = a[i].get(key).and_then(|x| x.as_u64()) {
                                for nn in [0, n / 2, n.saturating_sub(1)] {
                                    if nn < n {
                                        let mut b = a.clone();
                                        b[i][key] = json!(nn);
                                        push(Value::Array(b));
                                    }
                                }
                            }
                        }
                    }
                }
            }
            Value::Object(o) if k.contains("sched") => {
                if o.get("k").and_then(|x| x.as_str()) != Some("full") {
                    push(json!({"k":"full"}));
                    push(json!({"k":"fixed","n":1}));
                }
            }
            Value::Object(o) if k == "consumer" => {
                if o.get("k").and_then(|x| x.as_str()) != Some("read_to_end") {
                    push(json!({"k":"read_to_end"}));
                }
                if o.get("k").and_then(|x| x.as_str()) != Some("read_loop") {
                    push(json!({"k":"read_loop","v":[4096]}));
                }
            }
            Value::Object(o) if k == "payload" => {
                if let Some(h) = o.get("hex").and_then(|x| x.as_str()) {
                    let n = h.len() / 2;
                    if n > 0 {
                        push(json!({"hex": &h[..(n / 2) * 2]}));
                        push(json!({"hex": &h[(n / 2) * 2..]}));
                        push(json!({"hex": &h[..(n - 1) * 2]}));
                        push(json!({"hex": &h[2..]}));
                        if h.bytes().any(|c| c != b'6' && c != b'1') {
                            push(json!({"hex": "61".repeat(n)}));
                        }
                    }
                } else if let Some(len) = o.get("len").and_then(|x| x.as_u64()) {
                    for nl in [0, len / 2, len.saturating_sub(1), len.saturating_sub(len % 512), 64, 600] {
                        if nl < len {
                            let mut m = o.clone();
                            m.insert("len".into(), json!(nl));
                            push(Value::Object(m));
                        }
                    }
                    if len <= 256 {
                        let bytes = crate::util::payload_from_json(v);
                        push(json!({"hex": hex::encode(bytes)}));
                    }
                }
            }
            Value::Bool(true) => push(Value::Bool(false)),
            Value::String(s) if k == "compression" && s != "none" => push(json!("none")),
            Value::Object(o) if k == "enc" && o.get("k").and_then(|x| x.as_str()) != Some("none") => {
                push(json!({"k":"none"}));
            }
            Value::Number(n) if k == "cap" || k == "partial" => {
                let d = if k == "cap" { 8192 } else { 512 };
                if n.as_u64() != Some(d) {
                    push(json!(d));
                }
            }
            _ => {}
        }
    }
    out
}

pub fn minimise(fam: &Family, v: &Violation, budget_s: f64) -> Violation {
    let t0 = Instant::now();
    let mut best = v.clone();
    let mut tries = 0;
    'outer: loop {
        for cand in shrink_candidates(&best.plan) {
            if t0.elapsed().as_secs_f64() > budget_s || tries > 400 {
                break 'outer;
            }
            tries += 1;
            if cand.to_string().len() > best.plan.to_string().len() + 600 {
                continue;
            }
            if let Some(nv) = reproduces(fam, &cand, &v.class, &v.site) {
                // the reproduced violation may carry its own (more specific) plan
                best = Violation { plan: if nv.plan.get("only").is_some() || cand.get("only").is_none() { nv.plan.clone() } else { cand }, ..nv };
                continue 'outer;
            }
        }
        break;
    }
    best
}

// ---------------------------------------------------------------- known findings

#[derive(Debug, Clone)]
pub struct Known {
    pub id: String,
    pub property: String,
    pub class: String,
    pub contains: Vec<String>,
    pub what: String,
}

pub fn load_known() -> Vec<Known> {
    let p = verif_root().join("known_findings.json");
    let Ok(s) = std::fs::read_to_string(p) else { return vec![] };
    let Ok(v) = serde_json::from_str::<Value>(&s) else {
        eprintln!("harness error: known_findings.json does not parse");
        std::process::exit(2);
    };
    v["findings"]
        .as_array()
        .map(|a| {
            a.iter()
                .map(|f| Known {
                    id: f["id"].as_str().unwrap_or("").into(),
                    property: f["property"].as_str().unwrap_or("").into(),
                    class: f["class"].as_str().unwrap_or("").into(),
                    contains: f["match"]
                        .as_array()
                        .map(|m| m.iter().filter_map(|x| x.as_str().map(String::from)).collect())
                        .unwrap_or_default(),
                    what: f["what"].as_str().unwrap_or("").into(),
                })
                .collect()
        })
        .unwrap_or_default()
}

fn matches_known<'a>(known: &'a [Known], property: &str, v: &Violation) -> Option<&'a Known> {
    let hay = format!("{} || {} || {}", v.site, v.detail, v.plan);
    known.iter().find(|k| {
        k.property == property && k.class == v.class && k.contains.iter().all(|c| hay.contains(c.as_str()))
    })
}

// ---------------------------------------------------------------- running a whole check

pub struct Outcome {
    pub violations: usize,
    pub known: usize,
}

pub fn run_check(check: &Check, tier: Tier, seed: u64, threads: usize) -> Outcome {
    let t0 = Instant::now();

    let known = load_known();
    println!("VERIF_SEED={seed} property={} tier={:?} threads={threads}", check.property, tier);
    start_watchdog(check.property, 120);
    arm_alloc_trap(check.property, seed);

    let mut total = Rec::default();
    let mut per_family = serde_json::Map::new();
    let mut reported: Vec<(String, String)> = Vec::new();
    let mut known_hit: Vec<String> = Vec::new();
    let mut new_violations = 0usize;
    let only_family = std::env::var("VERIF_FAMILY").ok();

    for fam in &check.families {
        if let Some(f) = &only_family {
            if !fam.name.contains(f.as_str()) {
                continue;
            }
        }
        let tf = Instant::now();
        let mut known_counts = 0u64;
        let mut rec = Rec::default();
        let mut nplans = 0usize;
        let mut round = 0u64;
        loop {
            let ctx = GenCtx::new(seed, tier, round);
            let plans = (fam.gen)(&ctx);
            nplans += plans.len();
            let mut r = run_family(fam, &plans, threads);
            // known findings are triaged away round by round (they can be numerous); everything else is
            // kept, in plan order, for reporting below (bounded: the first 5 000 unknown ones)
            let vs = std::mem::take(&mut r.violations);
            for v in vs {
                if let Some(k) = matches_known(&known, check.property, &v) {
                    known_counts += 1;
                    if !known_hit.contains(&k.id) {
                        known_hit.push(k.id.clone());
                        println!("KNOWN-FINDING: property={} {} [{}]", check.property, k.what, k.id);
                    }
                } else if rec.violations.len() < 5_000 {
                    rec.violations.push(v);
                }
            }
            rec.merge(r);
            if !ctx.wants_another_round() {
                break;
            }
            round += 1;
        }
        let plans_len = nplans;
        let secs = tf.elapsed().as_secs_f64();
        println!(
            "  family {:<28} plans={:<7} evals={:<9} distinct={:<8} violations={} known-finding-hits={} ({:.1}s)",
            fam.name,
            plans_len,
            rec.evals,
            rec.hashes.len(),
            rec.violations.len(),
            known_counts,
            secs
        );
        per_family.insert(
            fam.name.to_string(),
            json!({"plans": plans_len, "rounds": round + 1, "evaluations": rec.evals, "distinct_nontrivial": rec.hashes.len(), "wall_s": (secs * 100.0).round() / 100.0}),
        );
        // triage violations in plan order
        for v in &rec.violations {
            if let Some(k) = matches_known(&known, check.property, v) {
                if !known_hit.contains(&k.id) {
                    known_hit.push(k.id.clone());
                    println!("KNOWN-FINDING: property={} {} [{}]", check.property, k.what, k.id);
                }
                continue;
            }
            let key = (v.class.clone(), v.site.clone());
            if reported.contains(&key) {
                continue;
            }
            if reported.len() >= 6 {
                continue;
            }
            reported.push(key);
            // replay verification: the explicit plan must reproduce the same class+site
            let Some(first) = reproduces(fam, &v.plan, &v.class, &v.site) else {
                eprintln!(
                    "harness error: violation did not replay (family {} class {} site {}): {}",
                    fam.name, v.class, v.site, v.detail
                );
                let p = write_replay(check.property, fam.name, seed, v, None);
                eprintln!("  unreplayable plan kept at {p}");
                std::process::exit(2);
            };
            let small = minimise(fam, &first, 20.0);
            // a minimised plan may turn into a known finding's plan; re-check
            if let Some(k) = matches_known(&known, check.property, &small) {
                if !known_hit.contains(&k.id) {
                    known_hit.push(k.id.clone());
                    println!("KNOWN-FINDING: property={} {} [{}]", check.property, k.what, k.id);
                }
                continue;
            }
            let path = write_replay(check.property, fam.name, seed, &small, Some(&v.plan));
            new_violations += 1;
            println!("  violation class={} site={} :: {}", small.class, small.site, small.detail);
            println!("VIOLATION property={} replay={}", check.property, path);
        }
        let mut rec = rec;
        rec.violations.clear();
        total.merge(rec);
    }

    let wall = t0.elapsed().as_secs_f64();
    crate::evidence::write(check, tier, seed, &total, per_family, wall, new_violations, &known_hit, threads);
    println!(
        "property={} evaluations={} distinct_nontrivial={} new_violations={} known_findings={} wall={:.1}s",
        check.property,
        total.evals,
        total.hashes.len(),
        new_violations,
        known_hit.len(),
        wall
    );
    Outcome { violations: new_violations, known: known_hit.len() }
}

pub fn replay_file(checks: &[Check], path: &str) -> i32 {
    let Ok(s) = std::fs::read_to_string(path) else {
        eprintln!("cannot read {path}");
        return 2;
    };
    let Ok(doc) = serde_json::from_str::<Value>(&s) else {
        eprintln!("cannot parse {path}");
        return 2;
    };
    let property = doc["property"].as_str().unwrap_or("");
    let family = doc["family"].as_str().unwrap_or("");
    let class = doc["class"].as_str().unwrap_or("");
    let site = doc["site"].as_str().unwrap_or("");
    arm_alloc_trap(property, doc["seed"].as_u64().unwrap_or(0));
    for c in checks {
        if c.property != property {
            continue;
        }
        for f in &c.families {
            if f.name == family {
                let rec = run_plan(f, &doc["plan"]);
                for v in &rec.violations {
                    println!("replayed: class={} site={} :: {}", v.class, v.site, v.detail);
                }
                // a watchdog ("hang") report is reproduced by any violation of the same plan: the plan is
                // re-run without the other workers that made it slow
                if rec.violations.iter().any(|v| same(v, class, site)) || (class == "hang" && !rec.violations.is_empty()) {
                    println!("VIOLATION property={property} replay={path}");
                    return 1;
                }
                println!("not reproduced: {} violation(s), none of class={class} site={site}", rec.violations.len());
                return 0;
            }
        }
    }
    eprintln!("unknown property/family {property}/{family}");
    2
}
