#!/usr/bin/env python3
"""Regenerates /verif/MANIFEST.json from the table below (keeps it valid and in sync)."""
import json, subprocess

CHECKS = {
 "C19": ("exploration",
         "Allocator-seam simulation: a counting global allocator with per-run thread-local accounts; the invariant peak <= 16 x bytes delivered + 192 KiB (+ documented stream buffers) is evaluated by the source seam at every call and cumulative allocation is bounded at the end. Workloads: packet headers of all 64 tags announcing 2^16..2^32-1 octets over <= 22 supplied (EOF or 1-byte drip); every offset of the first 300 body octets of every packet of real artifacts overwritten by large 1/2/4-octet values (covers every count/length/size field); 3*10^4 repeated packets judged by doubling; compression nesting to depth 120; 32 MiB streams built from a lazy source into a discarding sink and 8 MiB messages read with a fixed buffer across builder configurations (default SEIPDv1 against its max_message_size); Argon2 triples outside the documented ceiling must be refused with < 1 MiB allocated.",
         "5 (C19)", "constants fixed from measurements on the pinned tree (parsed representations are up to ~16x their wire size; bzip2 state up to 8 MiB); runs that look over the bound are re-measured once so that one-time initialisations in dependencies are not charged to them; wall time is never judged",
         "deterministic simulation with allocator accounting seam and declared-size fault injection"),
 "C04": ("exploration",
         "Structure-aware hostile artifacts delivered through hostile schedules and I/O faults: rpgp-produced messages, certificates, secret keys, signatures and cleartext documents damaged at the armor, packet, pre-encryption-plaintext (re-encrypted under the recipient's session key with real rpgp) and pre-compression layers by flips, stores, truncation, duplication, deletion, insertion and length edits; PKESKs around attacker-chosen session-key plaintext of every length 0..40 x sampled (thorough: all) first octets for each public-key algorithm; 0..255 sweeps of the leading parameter octets of SKESK, secret-key S2K, signature, one-pass, literal, compressed and key packets; every processing entry point under catch_unwind with seam step budgets and a 120 s watchdog. Scoped: the unstructured all-byte-strings half of the quantifier is fuzzing, not this technique.",
         "5 (C04)", "panics are observed through catch_unwind (a stack overflow or abort would kill the check, which then fails); reader accessors are not called after an error",
         "deterministic simulation: layered fault injection into real traffic + byzantine peer stub + I/O faults"),
 "C18": ("exploration",
         "Multi-party simulation: sender, 1..4 key recipients over all pool encryption algorithms (locked/unlocked, addressed/anonymous), 0..3 password recipients over S2K kinds, outsiders with unrelated keys and passwords, a decoy stub that re-addresses one PKESK; every recipient alone, recipients mixed with outsiders in both orders, candidate-password lists for locked keys, v6 passwords among unrelated ones, outsiders / wrong password / wrong session key (no plaintext byte, Err by the end of the read), and the cross-check mode with conflicting session keys (must be reported). One recorded known finding (several SKESK v4 packets).",
         "5 (C18)", "SKESK v4 with decoy passwords excluded by the property itself; MDC/AEAD unforgeable",
         "deterministic multi-party simulation with byzantine decoy stub"),
 "C07": ("exploration",
         "Key generation driven from the RNG seam (one stream per run, first octets of fill_bytes biased to 0x00/0xFF in half of the runs) and the clock seam (extremes and jumps) over both key versions, ten primary algorithms, thirteen subkey kinds incl. signing subkeys, locked/unlocked primaries and subkeys, 0..3 user ids, preference lists; per key: verify_bindings (secret and public), embedded back signatures, binary and armored export through sink schedules and import through source schedules (equality, fingerprint, key id), flags/preferences/features read back, every signing key signs and verifies (and does not verify under another key), every encryption subkey decrypts SEIPDv1 and SEIPDv2 messages.",
         "5 (C07)", "builder-refused shapes skipped; RSA/DSA sampled far less than the cheap algorithms",
         "deterministic simulation with RNG and clock fault injection"),
 "C08": ("exploration",
         "Lock -> (store through sink schedules -> parse through source schedules) -> unlock cycles over real secret key packets of all pool algorithms, both key versions, CFB and AEAD (3 modes) protection, 9 ciphers, simple/salted/iterated/Argon2 specifiers, password classes incl. empty, non-UTF-8 and 200-byte, RNG-seam IV/nonce/salt with biased octets; wrong passwords; bit flips over S2K parameters, IV/nonce, blob and (AEAD) public fields; usage-255 and legacy-cipher-octet keys produced by a legacy-peer stub. Oracle: right password restores byte-identical key material, anything else is Err.",
         "5 (C08)", "legacy-peer stub uses cfb-mode/aes/md-5 crates and rpgp's own S2K derive_key; 16-bit checksum cases only asserted where they cannot collide",
         "deterministic simulation (store round trip, RNG seam, channel bit flips, legacy-peer stub)"),
 "C16": ("exploration",
         "Mail-path simulation: texts from a grammar rich in dash-initial lines, blanks, CRs, multi-byte characters and armor boundary strings are signed through sign/new/new_many (1-2 signers), armored, passed through a channel that rewrites body lines (identity, LF<->CRLF, trailing blanks stripped/added, bit flip, byte insert/delete) and read back through from_string / from_armor / from_armor_buf under read schedules. One symmetric oracle judges every channel: verify succeeds iff the reference signed form of the received body equals that of the original text, and signed_text() always equals the reference signed form of the received body; text() round-trips on the identity channel.",
         "5 (C16)", "the 30-line reference model of the cleartext framework in the harness is the specification; the channel never touches the armor headers or the signature block",
         "deterministic simulation of a rewriting channel with reference-model oracle"),
 "C02": ("fault_enumeration",
         "Hostile channel between signer and verifier: for signed objects from every signing interface (detached, one-pass and prefixed messages, cleartext, certifications, bindings, direct-key, revocations; v4/v6; five key algorithms) every bit of short contents, truncations/extensions, every bit of every hashed field of the signature packet (located by an independent signature-body parser), salt, sampled signature-value bits, the one-pass hash octet/salt, substituted keys and substituted signed objects; every applicable verification entry point must return Err. Cleartext is judged by the symmetric rule (reject iff the reference signed form changed).",
         "5 (C02)", "signatures/hashes unforgeable; unhashed area, MPI bit counts and the 16-bit prefix are outside the fault set; the cleartext signed-form reference model is 20 lines in the harness",
         "deterministic simulation with channel fault enumeration between signer and verifier"),
 "C06": ("exploration",
         "Fault-free signer->verifier pipeline over ALL strings on {CR,LF,x} up to length 7 and random strings over a canonicalization-exercising alphabet up to 2 KiB, crossed with nine signing interfaces, seven keys, all applicable verification interfaces (detached, streamed, prefixed-signature message, one-pass message incl. armor transport and extraction of the embedded signature, cleartext), source schedules on the streaming signers; plus certificate-forming signatures through SignatureConfig and their verify_* counterparts and verify_bindings.",
         "5 (C06)", "prefixed-signature messages are assembled by the harness framer; cleartext only for valid UTF-8",
         "deterministic simulation (fault-free batch) of the sign/verify pipeline"),
 "C03": ("fault_enumeration",
         "Channel faults applied to real encrypted messages: every single-bit flip of the SEIPD packet for containers <= 300 bytes (sampled above), all 256 values of each parameter octet, truncation at every offset raw and with the length repaired, appended bytes (random and replayed chunks, before and after the final tag), every drop/duplicate/swap/permutation of <= 4 AEAD chunks and a dropped/duplicated final tag; read through Message with several consumer scripts and through packet::StreamDecryptor directly. Oracle: Err by the end, no plaintext byte in default SEIPDv1, only a true prefix in SEIPDv2.",
         "5 (C03)", "MDC/AEAD tags treated as unforgeable; the deframer stub locates fields; session key supplied directly or through one password",
         "deterministic simulation with channel fault enumeration (bit rot, truncation, replay, reordering)"),
 "C14": ("exploration",
         "All strings over {CR, LF, x} up to length 9 (11 thorough) under all chunkings through the streaming hasher (digest exposed by a recording signing key), through NormalizedReader under all read compositions and through the in-memory normalization, each compared with a 10-line reference canon(); digest kernel compared with the canon kernel over the single-edit neighbourhood; real text signatures checked on the LF<->CRLF class; long strings with line-ending material at the 512 B / 8 KiB buffer edges and at the very end; DataMode::Utf8 acceptance vs predicate under read schedules. Exhaustive over the 3-symbol abstraction up to the stated length, sampled above.",
         "5 (C14)", "the abstraction alphabet is justified by reading the anchored code (it branches only on CR / LF / other); SHA-256 collisions are ignored",
         "deterministic simulation of chunked delivery with reference-model oracle (bounded enumeration inside seeded batches)"),
 "C17": ("exploration",
         "Reader: rpgp-produced packet streams re-framed by an independent framer under seeded legal framings (old/new headers, all length forms, partial sequences incl. hundreds of 1-byte chunks, indeterminate) and fed through source schedules to PacketParser / Message / key parsers, outcome compared with the canonical framing; illegal framings (partial on non-data tag, first chunk < 512, truncation in a fixed body / partial chunk / at a chunk boundary) must end in Err. Writer: every stream the builder writes in fault-free runs is deframed strictly at every layer the harness can open.",
         "5 (C17)", "trusts the harness framer/deframer (unit-tested, ~250 lines) and flate2/bzip2 used to open compressed layers",
         "deterministic simulation: channel re-segmentation/truncation + sink monitor with independent framing model"),
 "C01": ("exploration",
         "Fault-free configuration of the producer->channel->consumer pipeline: a seeded swarm of builder configurations (all layers, ciphers, AEAD modes, chunk sizes, signers, recipients, armor) x payload lengths on and around every internal boundary x source kind/schedule x sink schedule x reader schedule x consumer script x RNG bias x clock extremes; the reader must accept the emitted bytes and return exactly the payload, the literal metadata and valid signatures. Sampling of a ~10-dimensional product, so evidence not proof.",
         "5 (C01)", "trusts the key pool (generated by rpgp itself) and the reader as its own judge of signatures; one opener per run (C18 covers recipients)",
         "deterministic simulation (fault-free batch) with reference-model oracle"),
 "C10": ("exploration",
         "Every data length 0..1100 (0..4096 thorough) plus sampled lengths to 1 MiB x block type x header map x checksum x sink schedule through armor::write, judged by an independent strict armor checker (own CRC-24, base64 crate, 64-column rule), then through Dearmor under source schedules, BufReader capacities and consumer scripts in each tolerated transport variant, with CRC checking off and on (correct / wrong / absent / init-value CRC). One recorded known finding (CRC hasher never updated).",
         "5 (C10)", "trusts the base64 crate used by the checker; benign transport variants are those RFC 9580 6.2 and the reader both allow",
         "deterministic simulation (schedules + benign channel rewrites) with independent armor model"),
 "C09": ("fault_enumeration",
         "Seeded swarm over builder/reader configurations, payloads around internal boundaries, source/sink/consumer schedules; every source-read, sink-write and flush call of short runs is swept with a transient (EINTR), a hard I/O error and Ok(0). Oracle: fault-free byte/verdict identity against the S-full reference; with a fault Err-or-identical, never Ok with different bytes, never a clean shorter end, never a panic or livelock. A sampled search, not a proof.",
         "5 (C09)", "trusts: std's BufReader/io::copy; reference model = the same rpgp build under the S-full schedule (so a bug that is schedule-independent is invisible here and left to C01); truncation without an error is out of scope (C03/C17)",
         "deterministic simulation with I/O fault injection"),
}

NOT_APPLICABLE = [
 ("C05", "parse/serialize inversion and write_len truthfulness are pure functions of a packet value; deciding them needs an independent RFC 9580 encoder as generator/oracle (differential testing) - no schedule, fault, RNG, clock or second party influences the outcome"),
 ("C11", "conformance of a deterministic digest computation to RFC 9580 5.2.4, decidable only against an independent implementation of that section; sign->verify inside one simulated system cannot see an error made on both sides"),
 ("C12", "byte-exact conformance of deterministic symmetric/KDF constructions to the RFC needs independent reference vectors, not simulation; encrypt->decrypt round trips are already C01"),
 ("C13", "fingerprint/key id are a pure hash of the public key packet; nothing to simulate (cross-copy stability is asserted incidentally by C07 as a probe only)"),
 ("C15", "a static acceptance table over hand-built artifacts (ESK version x container, key version x signature version, subpacket id x critical bit); each cell is a pure function of its input with no nondeterminism or fault"),
]

def main():
    hooks = subprocess.run(["git", "-C", "/repo", "log", "--format=%H %s"], capture_output=True, text=True).stdout.splitlines()
    hook_commits = [l.split()[0] for l in hooks if " verif hook:" in l]
    checks = []
    for pid, (cat, text, ref, note, tech) in sorted(CHECKS.items()):
        checks.append({
            "property_id": pid,
            "quick_cmd": f"./check {pid} quick",
            "thorough_cmd": f"./check {pid} thorough",
            "evidence_file": f"/verif/evidence/{pid}.json",
            "replay_cmd_template": "./check replay {path}",
            "engine": "sim",
            "level_claimed": {"category": cat, "text": text, "design_ref": "DESIGN.md section " + ref},
            "level_note": note,
            "technique": tech,
        })
    m = {
        "version": 1,
        "setup_cmd": "cd /verif/sim && CARGO_NET_OFFLINE=true cargo build --release --offline",
        "hooks": {
            "guard": "--cfg rpgp_verif",
            "enable": "RUSTFLAGS='--cfg rpgp_verif' via /verif/sim/.cargo/config.toml; the sim crate depends on pgp by path (/repo), so every check rebuilds rpgp from /repo's working tree with the hooks on",
            "baseline_off_cmd": "cd /repo && cargo nextest run --workspace --no-fail-fast --offline || cargo test --workspace --no-fail-fast --offline",
            "source_commits": hook_commits,
            "add_only": True,
        },
        "engines": [{
            "name": "sim",
            "path": "/verif/sim",
            "serves_properties": sorted(CHECKS.keys()),
            "kind_free_text": "single Rust binary: producer -> channel -> consumer pipeline simulation of real rpgp code over simulator-owned Read/Write/BufRead/RNG/clock/allocator seams; explicit JSON plans derived from VERIF_SEED; replay files; plan minimiser",
        }],
        "checks": checks,
        "not_applicable": [{"property_id": p, "reason": r} for p, r in NOT_APPLICABLE],
        "notes": "exit 0 = held (KNOWN-FINDING lines for entries of known_findings.json), exit 1 = VIOLATION line with replay file, exit 2 = harness error. VERIF_SEED and VERIF_TIER are honoured.",
    }
    json.dump(m, open("/verif/MANIFEST.json", "w"), indent=1)
    print("MANIFEST.json written:", len(checks), "checks")

if __name__ == "__main__":
    main()
