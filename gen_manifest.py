#!/usr/bin/env python3
"""Regenerates /verif/MANIFEST.json from the table below (keeps it valid and in sync)."""
import json, subprocess

CHECKS = {
 "C09": ("fault_enumeration",
         "Seeded swarm over builder/reader configurations, payloads around internal boundaries, source/sink/consumer schedules; every source-read, sink-write and flush call of short runs is swept with a transient (EINTR), a hard I/O error and Ok(0). Oracle: fault-free byte/verdict identity against the S-full reference; with a fault Err-or-identical, never Ok with different bytes, never a clean shorter end, never a panic or livelock. A sampled search, not a proof.",
         "5 (C09)", "trusts: std's BufReader/io::copy; reference model = the same rpgp build under the S-full schedule (so a bug that is schedule-independent is invisible here and left to C01); truncation without an error is out of scope (C03/C17)",
         "deterministic simulation with I/O fault injection"),
}

NOT_APPLICABLE = [
 ("C05", "parse/serialize inversion and write_len truthfulness are pure functions of a packet value; deciding them needs an independent RFC 9580 encoder as generator/oracle (differential testing) - no schedule, fault, RNG, clock or second party influences the outcome"),
 ("C11", "conformance of a deterministic digest computation to RFC 9580 5.2.4, decidable only against an independent implementation of that section; sign->verify inside one simulated system cannot see an error made on both sides"),
 ("C12", "byte-exact conformance of deterministic symmetric/KDF constructions to the RFC needs independent reference vectors, not simulation; encrypt->decrypt round trips are already C01"),
 ("C13", "fingerprint/key id are a pure hash of the public key packet; nothing to simulate (cross-copy stability is asserted incidentally by C07 as a probe only)"),
 ("C15", "a static acceptance table over hand-built artifacts (ESK version x container, key version x signature version, subpacket id x critical bit); each cell is a pure function of its input with no nondeterminism or fault"),
]

def main():
    hooks = subprocess.run(["git", "-C", "/repo", "log", "--format=%H %s"], capture_output=True, text=True).stdout.splitlines()
    hook_commits = [l.split()[0] for l in hooks if " verif hook:" in l]
    checks = []
    for pid, (cat, text, ref, note, tech) in sorted(CHECKS.items()):
        checks.append({
            "property_id": pid,
            "quick_cmd": f"./check {pid} quick",
            "thorough_cmd": f"./check {pid} thorough",
            "evidence_file": f"/verif/evidence/{pid}.json",
            "replay_cmd_template": "./check replay {path}",
            "engine": "sim",
            "level_claimed": {"category": cat, "text": text, "design_ref": "DESIGN.md section " + ref},
            "level_note": note,
            "technique": tech,
        })
    m = {
        "version": 1,
        "setup_cmd": "cd /verif/sim && CARGO_NET_OFFLINE=true cargo build --release --offline",
        "hooks": {
            "guard": "--cfg rpgp_verif",
            "enable": "RUSTFLAGS='--cfg rpgp_verif' via /verif/sim/.cargo/config.toml; the sim crate depends on pgp by path (/repo), so every check rebuilds rpgp from /repo's working tree with the hooks on",
            "baseline_off_cmd": "cd /repo && cargo nextest run --workspace --no-fail-fast --offline || cargo test --workspace --no-fail-fast --offline",
            "source_commits": hook_commits,
            "add_only": True,
        },
        "engines": [{
            "name": "sim",
            "path": "/verif/sim",
            "serves_properties": sorted(CHECKS.keys()),
            "kind_free_text": "single Rust binary: producer -> channel -> consumer pipeline simulation of real rpgp code over simulator-owned Read/Write/BufRead/RNG/clock/allocator seams; explicit JSON plans derived from VERIF_SEED; replay files; plan minimiser",
        }],
        "checks": checks,
        "not_applicable": [{"property_id": p, "reason": r} for p, r in NOT_APPLICABLE],
        "notes": "exit 0 = held (KNOWN-FINDING lines for entries of known_findings.json), exit 1 = VIOLATION line with replay file, exit 2 = harness error. VERIF_SEED and VERIF_TIER are honoured.",
    }
    json.dump(m, open("/verif/MANIFEST.json", "w"), indent=1)
    print("MANIFEST.json written:", len(checks), "checks")

if __name__ == "__main__":
    main()
