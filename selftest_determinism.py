#!/usr/bin/env python3
"""Determinism self-test: every check, reduced batch, several seeds, each executed in separate
processes at worker counts 1, 4 and 16 (and twice at 16); all order-independent evidence
(evaluation counts, distinct event-log hashes, per-fault / per-schedule / probe counters,
violation counts) must be identical.  usage: selftest_determinism.py [nseeds] [scale]"""
import json, os, subprocess, sys, tempfile, shutil

ROOT = os.path.dirname(os.path.abspath(__file__))
IDS = [c["property_id"] for c in json.load(open(os.path.join(ROOT, "MANIFEST.json")))["checks"]]
nseeds = int(sys.argv[1]) if len(sys.argv) > 1 else 3
scale = sys.argv[2] if len(sys.argv) > 2 else "0.02"

def strip(ev):
    c = ev["coverage"]
    for k in ("simulated_runs_per_hour", "worker_threads", "samples"):
        c.pop(k, None)
    for f in c.get("families", {}).values():
        f.pop("wall_s", None)
    ev.pop("wall_s", None)
    return ev

subprocess.run([os.path.join(ROOT, "check"), "list"], check=True, stdout=subprocess.DEVNULL)
BIN = os.path.join(ROOT, "sim", "target", "release", "sim")
bad = 0
for pid in IDS:
    for seed in range(101, 101 + nseeds):
        results = []
        for threads in (1, 4, 16, 16):
            d = tempfile.mkdtemp(prefix="verif-det-")
            shutil.copy(os.path.join(ROOT, "known_findings.json"), d)
            env = dict(os.environ, VERIF_ROOT=d, VERIF_SEED=str(seed), VERIF_SCALE=scale, VERIF_THREADS=str(threads))
            p = subprocess.run([BIN, pid, "--tier", "quick"], env=env, capture_output=True, text=True)
            try:
                ev = strip(json.load(open(os.path.join(d, "evidence", pid + ".json"))))
            except Exception as e:
                ev = {"error": str(e), "stdout": p.stdout[-400:]}
            results.append((threads, p.returncode, json.dumps(ev, sort_keys=True)))
            shutil.rmtree(d, ignore_errors=True)
        same = all(r[1:] == results[0][1:] for r in results)
        print(f"{pid} seed={seed} exit={results[0][1]} deterministic={'yes' if same else 'NO'}")
        if not same:
            bad += 1
            a, b = results[0][2], [r for r in results if r[1:] != results[0][1:]][0][2]
            ja, jb = json.loads(a), json.loads(b)
            for k in ja.get("coverage", {}):
                if ja["coverage"].get(k) != jb.get("coverage", {}).get(k):
                    print("   differs:", k, str(ja["coverage"].get(k))[:200], "VS", str(jb.get("coverage", {}).get(k))[:200])
print("DETERMINISM", "OK" if bad == 0 else f"FAILED ({bad})")
sys.exit(1 if bad else 0)
